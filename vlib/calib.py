"""Calibration of vlib.simk's renderers against the live kernel.

Each function returns a small dict for the evidence file and raises
HarnessError when the model and the live kernel disagree (that is a defect
of the machinery, never reported as a violation).
"""

import ctypes
import os
import threading

from vlib import simk
from vlib.runner import HarnessError

PR_SET_NAME = 15


def _read(path):
    with open(path, "rb") as f:
        return f.read()


def parse_stat(data):
    """Model parser: proc(5) - comm is between the first '(' and the LAST
    ')'.  Returns (pid, comm, [fields 3..n as bytes])."""
    lpar = data.index(b"(")
    rpar = data.rindex(b")")
    return int(data[:lpar]), data[lpar + 1:rpar], data[rpar + 2:].split()


def stat_status_roundtrip():
    out = {}
    libc = ctypes.CDLL(None, use_errno=True)
    pid = os.getpid()
    raw = _read(f"/proc/{pid}/stat")
    rpid, comm, f = parse_stat(raw)
    if rpid != pid or len(f) != 50:
        raise HarnessError(f"live stat has {len(f) + 2} fields, model assumes 52")

    def fld(n):  # man-page numbering
        return f[n - 3]

    checks = {
        "ppid@4": (int(fld(4)), os.getppid()),
        "pgrp@5": (int(fld(5)), os.getpgrp()),
        "session@6": (int(fld(6)), os.getsid(0)),
        "nice@19": (int(fld(19)), os.getpriority(os.PRIO_PROCESS, 0)),
        "num_threads@20": (int(fld(20)), len(os.listdir(f"/proc/{pid}/task"))),
    }
    for name, (a, b) in checks.items():
        if a != b:
            raise HarnessError(f"stat calibration {name}: {a} != {b}")
    t = os.times()
    clk = simk.CLK_TCK
    if abs(int(fld(14)) / clk - t.user) > 0.5 or abs(int(fld(15)) / clk - t.system) > 0.5:
        raise HarnessError("stat calibration utime/stime@14,15 vs os.times()")
    # starttime@22: boot-relative ticks; compare with uptime - process age
    up = float(_read("/proc/uptime").split()[0])
    if not (0 <= int(fld(22)) / clk <= up + 1):
        raise HarnessError("stat calibration starttime@22 out of range")
    out["stat_fields_checked"] = sorted(checks) + ["utime@14", "stime@15", "starttime@22"]

    # byte-level format: re-render the live record through the model
    p = simk.Proc(pid, comm=comm, state=fld(3), ppid=int(fld(4)),
                  pgrp=int(fld(5)), session=int(fld(6)), tty_nr=int(fld(7)),
                  tpgid=int(fld(8)), flags=int(fld(9)), minflt=int(fld(10)),
                  cminflt=int(fld(11)), majflt=int(fld(12)),
                  cmajflt=int(fld(13)), utime=int(fld(14)), stime=int(fld(15)),
                  cutime=int(fld(16)), cstime=int(fld(17)),
                  priority=int(fld(18)), nice=int(fld(19)),
                  itrealvalue=int(fld(21)), starttime=int(fld(22)),
                  vsize=int(fld(23)), rss=int(fld(24)), rsslim=int(fld(25)),
                  processor=int(fld(39)), rt_priority=int(fld(40)),
                  policy=int(fld(41)), blkio=int(fld(42)),
                  exit_code=int(fld(52)))
    p.threads = [simk.Thread(i, b"x") for i in range(int(fld(20)))]
    mine = simk.render_stat_fields(pid, comm, fld(3), p)
    rp, rc, rf = parse_stat(mine)
    modelled = [3, 4, 5, 6, 7, 8, 9, 10, 11, 12, 13, 14, 15, 16, 17, 18, 19, 20,
                21, 22, 23, 24, 25, 39, 40, 41, 42, 52]
    if (rp, rc) != (pid, comm) or len(rf) != len(f) or any(
            rf[n - 3] != f[n - 3] for n in modelled):
        raise HarnessError("stat render/parse round trip differs from live text")
    if not raw.endswith(b"\n") or not mine.endswith(b"\n"):
        raise HarnessError("stat newline convention")
    if raw.split(b" ", 2)[:2] != mine.split(b" ", 2)[:2]:
        raise HarnessError("stat prefix format")

    # live thread with hostile names: raw in stat, escaped in status
    results = {}

    def worker(name):
        libc.prctl(PR_SET_NAME, ctypes.c_char_p(name), 0, 0, 0)
        tid = threading.get_native_id()
        results[name] = (
            tid,
            _read(f"/proc/{pid}/task/{tid}/stat"),
            _read(f"/proc/{pid}/task/{tid}/status"),
        )

    names = [b"a) R 1 (b", b"x\ny\\z", b"Uid:\t7\t8\t9", b")", b"\xff\xfe ok",
             b"123456789012345"]
    for nm in names:
        th = threading.Thread(target=worker, args=(nm,))
        th.start()
        th.join()
        tid, st_, status = results[nm]
        want_prefix = b"%d (%s) " % (tid, nm)
        if not st_.startswith(want_prefix):
            raise HarnessError(f"live stat prefix for comm {nm!r}: {st_[:40]!r}")
        _p, c2, _f = parse_stat(st_)
        if c2 != nm:
            raise HarnessError(f"model parser mis-delimits comm {nm!r}")
        line1 = status.split(b"\n", 1)[0]
        if line1 != b"Name:\t" + simk.escape_status_name(nm):
            raise HarnessError(
                f"status Name escaping for {nm!r}: live {line1!r}")
    out["live_thread_names_checked"] = len(names)

    # status line formats used by psutil
    status = _read(f"/proc/{pid}/status")
    mine = simk.render_status(
        simk.Proc(pid, comm=comm, uids=os.getresuid() + (os.geteuid(),),
                  gids=os.getresgid() + (os.getegid(),)),
        simk.Kernel(ncpus=os.cpu_count()))
    live_lines = {ln.split(b":", 1)[0]: ln for ln in status.split(b"\n") if ln}
    my_lines = {ln.split(b":", 1)[0]: ln for ln in mine.split(b"\n") if ln}
    for key in (b"Uid", b"Gid", b"Tgid", b"Pid"):
        if live_lines[key] != my_lines[key]:
            raise HarnessError(f"status line {key!r}: live {live_lines[key]!r} "
                               f"model {my_lines[key]!r}")
    for key in (b"Threads", b"voluntary_ctxt_switches",
                b"nonvoluntary_ctxt_switches", b"Cpus_allowed_list"):
        a, b = live_lines[key], my_lines[key]
        if a.split(b"\t")[0] != b.split(b"\t")[0] or a.count(b"\t") != b.count(b"\t"):
            raise HarnessError(f"status line shape {key!r}: {a!r} vs {b!r}")
    order_live = [ln.split(b":", 1)[0] for ln in status.split(b"\n") if ln]
    if order_live[0] != b"Name":
        raise HarnessError("status: Name is not the first line")
    out["status_lines_checked"] = 8
    return out


def zombie_probe():
    """Behaviour of a real zombie on this kernel vs the model."""
    import errno
    import time

    pid = os.fork()
    if pid == 0:
        os._exit(3)
    try:
        for _ in range(200):
            if b") Z " in _read(f"/proc/{pid}/stat"):
                break
            time.sleep(0.005)
        k = simk.Kernel()
        k.spawn(pid, zombie=True, state=b"Z", fds={3: simk.FD("/x")})
        obs = {}

        def live(name, fn):
            try:
                r = fn(f"/proc/{pid}/{name}")
                return ("ok", len(r))
            except OSError as e:
                return ("err", errno.errorcode[e.errno])

        def model(name, kind):
            try:
                node = k.resolve(f"/proc/{pid}/{name}")
                if kind == "read":
                    if not isinstance(node, bytes):
                        return ("err", "EINVAL")
                    return ("ok", len(node))
                if kind == "list":
                    return ("ok", len(node[1]))
                return ("ok", 0)
            except OSError as e:
                return ("err", errno.errorcode[e.errno])

        for name in ("cmdline", "smaps", "environ", "smaps_rollup"):
            a, b = live(name, _read), model(name, "read")
            if a != b:
                raise HarnessError(f"zombie {name}: live {a} model {b}")
            obs[name] = a
        for name in ("fd", "fdinfo"):
            a, b = live(name, os.listdir), model(name, "list")
            if a != b:
                raise HarnessError(f"zombie {name}: live {a} model {b}")
            obs[name] = a
        for name in ("exe", "cwd"):
            a, b = live(name, os.readlink), model(name, "link")
            if a[0] != b[0] or (a[0] == "err" and a != b):
                raise HarnessError(f"zombie {name}: live {a} model {b}")
            obs[name] = a
        for name in ("stat", "status", "io", "statm"):
            a = live(name, _read)
            if a[0] != "ok":
                raise HarnessError(f"zombie {name} unreadable live: {a}")
        os.kill(pid, 0)
        return {"zombie_probe": {k_: list(v) for k_, v in obs.items()}}
    finally:
        try:
            os.waitpid(pid, 0)
        except ChildProcessError:
            pass


def default_signals():
    """preexec_fn for sacrificial children: every signal disposition back to
    the default and nothing blocked, so that a child dies of the signal it is
    sent whatever the harness inherited (nohup ignores SIGHUP, shells and CI
    runners ignore or block others)."""
    import signal

    for n in range(1, signal.NSIG):
        if n in (signal.SIGKILL, signal.SIGSTOP):
            continue
        try:
            signal.signal(n, signal.SIG_DFL)
        except (OSError, ValueError, RuntimeError):
            pass
    try:
        signal.pthread_sigmask(signal.SIG_SETMASK, set())
    except (AttributeError, OSError):
        pass
