"""Op-list histories over the simulated process table (C01, C02, C04).

A history is a plain list of small tuples; object references are indices taken
modulo the number of live candidates, so every generated op is applicable.
The same interpreter runs under Hypothesis and under --replay.

Ghost state: every psutil.Process object created by the interpreter remembers
the incarnation (simk.Proc.inc) its PID belonged to at creation time.
"""

from hypothesis import strategies as st

from vlib import simk

PID_POOL = [10, 11, 12, 13, 14, 15]


class Obj:
    def __init__(self, proc, pid, inc, born_gone=False):
        self.proc = proc
        self.pid = pid
        self.inc = inc  # incarnation id the object was built for (None: none)
        self.born_gone = born_gone
        self.hash0 = None
        self.seen_not_running = False


# process names (any process may set its own: prctl(PR_SET_NAME), /proc/self/comm)
# that make the stat record look as if it ended earlier / continued
ODD_COMMS = [b"w) x y", b"a) S 1 (b", b") R 0 0 0", b"p) 1 2", b"sh (1) S 7 7", b")", b"(", b"x y",
             b")))) 9 ((((", b"1 S 1"]


class World:
    def __init__(self, with_pid0=False, ncpus=4, first_tick=100, odd_comm=False):
        self.odd_comm = odd_comm
        self.k = simk.Kernel(ncpus=ncpus)
        # first_tick=-1: the first process of the pool starts at tick 0 (its
        # start time since boot is exactly 0.0, as for early-boot processes)
        self.tick = first_tick
        self.objs = []
        self.events = []
        self.recycled_pids = set()
        self.k.add_default_sysfiles()
        self.k.spawn(1, comm=b"init", ppid=0, starttime=1)
        self.k.spawn(self.k.self_pid, comm=b"harness", ppid=1, starttime=50)
        if with_pid0:
            self.k.spawn(0, comm=b"swapper", ppid=0, starttime=0)

    # ---- kernel-side events

    def _new_start(self):
        self.tick += 1
        return self.tick

    def _comm(self, default):
        if self.odd_comm and self.tick % 3:
            return ODD_COMMS[self.tick % len(ODD_COMMS)]
        return default

    def rename(self, pid, idx):
        """A live process changes its own name; it stays the same process."""
        p = self.k.procs.get(pid)
        if p is not None and pid not in (0, 1, self.k.self_pid):
            p.comm = ODD_COMMS[idx % len(ODD_COMMS)]
            self.events.append(("renamed", pid))

    def spawn(self, pid, child=False, zombie=False):
        k = self.k
        if pid in k.procs:
            return None
        start = self._new_start()
        return k.spawn(pid, comm=self._comm(b"p%d" % pid), ppid=k.self_pid if child else 1,
                       starttime=start, child=child, zombie=zombie,
                       state=b"Z" if zombie else b"S")

    def exit(self, pid, status=0):
        k = self.k
        p = k.procs.get(pid)
        if p is None or pid in (1, k.self_pid, 0):
            return
        if p.child:
            k.zombify(pid)
            p.wait_status = status
        else:
            k.vanish(pid)

    def reap(self, pid):
        p = self.k.procs.get(pid)
        if p is not None and p.zombie and pid not in (1, self.k.self_pid, 0):
            self.k.vanish(pid)

    def recycle(self, pid, zombie=False):
        """The PID now belongs to a new process started at least one clock
        tick later."""
        k = self.k
        if pid in (1, k.self_pid, 0):
            return None
        existed = pid in k.procs
        k.vanish(pid)
        self.recycled_pids.add(pid)
        start = self._new_start()
        p = k.spawn(pid, comm=self._comm(b"n%d" % pid), ppid=1, starttime=start,
                    zombie=zombie, state=b"Z" if zombie else b"S")
        self.events.append(("recycle", pid, "zombie" if zombie else "live", existed))
        return p

    def become(self, pid):
        """From now on the calling process is a freshly forked worker that the
        kernel gave the (free) PID `pid`: os.getpid() == pid.  Objects built
        earlier for a former owner of that PID travel with the fork."""
        k = self.k
        if pid in k.procs or pid in (0, 1):
            return None
        p = k.spawn(pid, comm=b"worker", ppid=k.self_pid, starttime=self._new_start())
        for q in k.procs.values():
            q.child = False   # the parent's children are not the worker's
        k.self_pid = pid
        self.recycled_pids.add(pid)
        self.events.append(("recycle", pid, "live", False))
        self.events.append(("became", pid))
        return p

    def owner_inc(self, pid):
        p = self.k.procs.get(pid)
        return p.inc if p is not None else None

    def alive(self, obj):
        """The object's own incarnation is still in the process table."""
        return obj.inc is not None and self.owner_inc(obj.pid) == obj.inc

    # ---- psutil-side

    def mkpopen(self, pid):
        """A real psutil.Popen object around a fake subprocess.Popen whose
        child is `pid`: as after Popen(...) of a child that somebody else
        (a SIGCHLD reaper, os.waitpid elsewhere) may later reap, so that the
        wrapped object's returncode stays None."""
        import psutil

        class FakeSubprocessPopen:
            def __init__(self, pid):
                self.pid = pid
                self.returncode = None
                self.stdin = self.stdout = self.stderr = None

            def poll(self):
                return self.returncode

        inc = self.owner_inc(pid)
        p = psutil.Popen.__new__(psutil.Popen)
        p._Popen__subproc = FakeSubprocessPopen(pid)
        p._init(pid, _ignore_nsp=True)
        o = Obj(p, pid, inc, born_gone=inc is None)
        o.popen = True
        self.objs.append(o)
        return o

    def mkproc(self, pid, via_popen=False):
        import psutil

        inc = self.owner_inc(pid)
        if via_popen == "popen-class":
            return self.mkpopen(pid)
        if via_popen:
            p = psutil.Process.__new__(psutil.Process)
            p._init(pid, _ignore_nsp=True)
            o = Obj(p, pid, inc, born_gone=inc is None)
            self.objs.append(o)
            return o
        try:
            p = psutil.Process(pid)
        except psutil.NoSuchProcess:
            if inc is not None:
                raise
            return None
        if inc is None:
            from vlib.runner import Violation
            raise Violation("constructor-nonexistent", f"Process({pid}) succeeded for an unlisted PID")
        o = Obj(p, pid, inc)
        self.objs.append(o)
        return o

    # ---- ops shared by the interpreters: oneshot() blocks and wait()

    def apply_extra(self, op):
        """("oneshot", obj, enter?) opens / closes a oneshot() block on an
        object (blocks stay open across later ops); ("wait", obj, timeout)
        calls Process.wait().  Returns True when the op was one of these."""
        import psutil

        kind = op[0]
        if kind == "oneshot":
            # indices 8..11 address every object at once
            targets = list(self.objs) if op[1] >= 8 else [self.pick_obj(op[1])]
            for o in targets:
                if o is None:
                    continue
                cm = getattr(o, "cm", None)
                if op[2] and cm is None:
                    o.cm = o.proc.oneshot()
                    o.cm.__enter__()
                    self.events.append(("oneshot-enter", o.pid))
                elif not op[2] and cm is not None:
                    o.cm = None
                    cm.__exit__(None, None, None)
            return True
        if kind == "iter_keep":
            # a complete pass over a cleared cache: every yielded object is
            # fresh (built for the current owner of its PID) and stays cached;
            # the objects of the pool's PIDs are kept for later questions
            psutil.process_iter.cache_clear()
            for pr in psutil.process_iter():
                if pr.pid in PID_POOL:
                    self.objs.append(Obj(pr, pr.pid, self.owner_inc(pr.pid)))
                    self.events.append(("kept-from-process_iter", pr.pid))
            return True
        if kind == "wait":
            o = self.pick_obj(op[1])
            if o is None or getattr(o, "popen", False):
                return True
            try:
                o.proc.wait(op[2])
                self.events.append(("wait-returned", o.pid))
            except psutil.Error:
                pass
            return True
        return False

    def close_blocks(self):
        for o in self.objs:
            cm = getattr(o, "cm", None)
            if cm is not None:
                o.cm = None
                cm.__exit__(None, None, None)

    def pick_obj(self, i):
        if not self.objs:
            return None
        return self.objs[i % len(self.objs)]

    def pick_pid(self, i):
        return PID_POOL[i % len(PID_POOL)]


# ---------------------------------------------------------------- strategies


def table_ops():
    i = st.integers(0, 11)
    return [
        st.tuples(st.just("spawn"), i, st.booleans(), st.sampled_from([False, False, False, True])),
        st.tuples(st.just("exit"), i),
        st.tuples(st.just("reap"), i),
        st.tuples(st.just("recycle"), i, st.booleans()),
        st.tuples(st.just("recycle"), i, st.booleans()),
        st.tuples(st.just("mkproc"), i, st.sampled_from([False, False, False, True, "popen-class",
                                                         "popen-class"])),
        st.tuples(st.just("mkproc"), i, st.just(False)),
        st.tuples(st.just("become"), i),
    ]


def extra_ops():
    i = st.integers(0, 11)
    return [
        st.tuples(st.just("oneshot"), i, st.sampled_from([True, True, False])),
        st.tuples(st.just("wait"), i, st.sampled_from([0, 0, 0.01])),
        st.tuples(st.just("wait"), i, st.sampled_from([0, 0, 0.01])),
        st.tuples(st.just("iter_keep")),
    ]


def with_motifs(single_ops, min_size, max_size, extra_motifs=()):
    """Op-list strategy: mostly independent ops, with a few multi-op motifs
    spliced in (sequences whose steps each matter and that independent draws
    would almost never line up): the result is still a flat list of plain ops."""
    i = st.integers(0, 5)
    z = st.booleans()
    ALL = 10   # index that addresses every object (is_running / oneshot)
    motifs = [
        # a fresh cached object for the new owner of a PID, reuse then
        # noticed through an older object, another pass, then questions
        st.tuples(i, z).map(lambda t: [("recycle", t[0], t[1]), ("iter_keep",), ("is_running", ALL),
                                       ("process_iter", 8), ("is_running", ALL)]),
        # object, death, reaping, same PID again, second object
        i.map(lambda n: [("mkproc", n, False), ("exit", n), ("reap", n),
                         ("spawn", n, False, False), ("mkproc", n, False), ("is_running", ALL)]),
        # questions asked inside one open oneshot() block around a recycle
        st.tuples(i, z).map(lambda t: [("oneshot", ALL, True), ("is_running", ALL), ("recycle", t[0], t[1]),
                                       ("is_running", ALL), ("oneshot", ALL, False)]),
        # wait() returns, the PID is taken again
        i.map(lambda n: [("exit", n), ("wait", n, 0), ("reap", n), ("recycle", n, False)]),
    ] + list(extra_motifs)
    one = st.one_of(*single_ops).map(lambda o: [o])
    piece = st.one_of(one, one, one, one, one, one, one, one, st.one_of(*motifs))
    return st.lists(piece, min_size=min_size, max_size=max_size).map(
        lambda ps: [op for p_ in ps for op in p_][:max_size + 8])


def query_ops():
    i = st.integers(0, 11)
    return [
        st.tuples(st.just("is_running"), i),
        st.tuples(st.just("process_iter"), st.integers(0, 8)),
        st.tuples(st.just("query"), i, st.sampled_from(["name", "as_dict", "status", "ppid", "str"])),
        st.tuples(st.just("pids")),
    ]
