"""ASan + UBSan build of the C extension and the environment to run under it."""

import os
import shutil
import subprocess

from vlib.runner import HarnessError

SAN_CFLAGS = "-fsanitize=address,undefined -fno-sanitize-recover=undefined -fno-omit-frame-pointer -g -O1"


def _lib(name):
    out = subprocess.run(["gcc", "-print-file-name=" + name], capture_output=True, text=True)
    path = out.stdout.strip()
    if not os.path.isabs(path) or not os.path.exists(path):
        raise HarnessError(f"sanitizer runtime {name} not found ({path!r})")
    return os.path.realpath(path)


def build():
    """Build (once per check run) a sanitized copy of the tree under test in
    $VERIF_SCRATCH/san and return its path."""
    scratch = os.environ.get("VERIF_SCRATCH")
    src = os.environ.get("VERIF_REPO_COPY")
    if not scratch or not src:
        raise HarnessError("VERIF_SCRATCH / VERIF_REPO_COPY not set (run through ./check)")
    dst = os.path.join(scratch, "san")
    marker = os.path.join(dst, ".built")
    if os.path.exists(marker):
        return dst
    if os.path.exists(dst):
        shutil.rmtree(dst)
    shutil.copytree(src, dst, ignore=shutil.ignore_patterns("*.so", "build", "__pycache__", "*.o"))
    env = dict(os.environ, CC="gcc", CFLAGS=SAN_CFLAGS,
               LDFLAGS="-fsanitize=address,undefined")
    env.pop("LD_PRELOAD", None)
    py = os.environ.get("VERIF_PY", "/venv/bin/python")
    r = subprocess.run([py, "setup.py", "build_ext", "-i"], cwd=dst, env=env,
                       capture_output=True, text=True)
    if r.returncode != 0:
        raise HarnessError("sanitizer build failed:\n" + (r.stdout + r.stderr)[-2000:])
    with open(marker, "w") as f:
        f.write("ok")
    return dst


def child_env(san_dir):
    env = dict(os.environ)
    env["LD_PRELOAD"] = _lib("libasan.so") + ":" + _lib("libubsan.so")
    env["ASAN_OPTIONS"] = "detect_leaks=0:abort_on_error=0:exitcode=86:allocator_may_return_null=1"
    env["UBSAN_OPTIONS"] = "print_stacktrace=1:halt_on_error=1:exitcode=87"
    env["PYTHONPATH"] = san_dir + ":" + os.environ.get("VERIF_DIR", "/verif")
    env["PSV_SAN_CHILD"] = "1"
    # Python objects from the system allocator: ASan then sees use-after-free
    # and double frees of objects (a reference-count slip in the extension),
    # which pymalloc's arenas would hide
    env["PYTHONMALLOC"] = "malloc"
    env["PYTHONHASHSEED"] = "0"
    env["PYTHONDONTWRITEBYTECODE"] = "1"
    return env
