"""detsched - harness-owned thread schedules.

Threads run real psutil code under sys.settrace; every `line` event in a file
of the psutil package is a yield point where the thread parks until the
scheduler names it.  A schedule is a list of (thread choice, number of steps)
segments; when the list is exhausted the remaining threads run to completion
one after the other (no further pre-emption).  Termination guard: a step
bound, never a wall clock (the wall-clock timeouts below only detect a broken
harness and raise HarnessError).
"""

import os
import sys
import threading

from vlib.runner import HarnessError


class Deadlock(Exception):
    pass


class StepBound(Exception):
    pass


class CoopLock:
    """Re-entrant lock whose acquire() yields to the scheduler instead of
    blocking (a blocked thread is simply not making progress)."""

    def __init__(self, sched):
        self._sched = sched
        self._owner = None
        self._count = 0

    def acquire(self, blocking=True, timeout=-1):
        me = threading.get_ident()
        spins = 0
        while True:
            if self._owner in (None, me):
                self._owner = me
                self._count += 1
                return True
            if not blocking:
                return False
            spins += 1
            self._sched.yield_point(blocked=True)
            if spins > 100000:
                raise Deadlock("lock never released")

    def release(self):
        self._count -= 1
        if self._count == 0:
            self._owner = None

    __enter__ = acquire

    def __exit__(self, *a):
        self.release()


class Scheduler:
    def __init__(self, psutil_dir, step_bound=200000):
        self.dir = os.path.abspath(psutil_dir) + os.sep
        self.cond = threading.Condition()
        self.current = None      # index of the thread allowed to run
        self.budget = 0          # remaining steps of the current segment
        self.threads = []
        self.finished = {}
        self.results = {}
        self.errors = {}
        self.steps = 0
        self.step_bound = step_bound
        self.trace = []          # (thread index, filename:lineno) of pre-emptions
        self.blocked = set()
        self.idx_of = {}
        self.sites = []

    # ---- called from worker threads

    def _tracer(self, frame, event, arg):
        if event != "call":
            return None
        if not frame.f_code.co_filename.startswith(self.dir):
            return None
        return self._local

    def _local(self, frame, event, arg):
        if event == "line":
            self._site = (os.path.basename(frame.f_code.co_filename), frame.f_lineno,
                          frame.f_code.co_name)
            self.yield_point()
        return self._local

    def yield_point(self, blocked=False):
        me = self.idx_of.get(threading.get_ident())
        if me is None:
            return
        with self.cond:
            self.steps += 1
            if self.steps > self.step_bound:
                raise StepBound()
            if blocked:
                self.blocked.add(me)
                self.budget = 0
            else:
                self.blocked.discard(me)
                self.budget -= 1
            if self.budget > 0 and not blocked:
                return
            # hand control back to the scheduler
            site = getattr(self, "_site", None)
            self.last_site = (me, site)
            self.current = None
            self.cond.notify_all()
            while self.current != me:
                if not self.cond.wait(60):
                    raise HarnessError("detsched: worker starved for 60 s")

    def _run_thread(self, i, fn):
        self.idx_of[threading.get_ident()] = i
        with self.cond:
            while self.current != i:
                if not self.cond.wait(60):
                    raise HarnessError("detsched: worker never scheduled")
        sys.settrace(self._tracer)
        try:
            self.results[i] = fn()
        except BaseException as e:  # noqa: BLE001
            self.errors[i] = e
        finally:
            sys.settrace(None)
            with self.cond:
                self.finished[i] = True
                self.blocked.discard(i)
                self.current = None
                self.cond.notify_all()

    # ---- called from the harness thread

    def run(self, fns, schedule):
        """fns: list of callables (one per thread).  schedule: list of
        (choice, steps).  Returns (results, errors, preemption sites)."""
        n = len(fns)
        self.finished = {i: False for i in range(n)}
        ths = [threading.Thread(target=self._run_thread, args=(i, fn), daemon=True)
               for i, fn in enumerate(fns)]
        for t in ths:
            t.start()
        segs = list(schedule)
        order_tail = list(range(n))
        stuck = 0
        while not all(self.finished.values()):
            runnable = [i for i in range(n) if not self.finished[i]]
            unblocked = [i for i in runnable if i not in self.blocked]
            if segs:
                choice, steps = segs.pop(0)
                pool = unblocked or runnable
                i = pool[choice % len(pool)]
                steps = max(1, steps)
            else:
                pool = unblocked or runnable
                i = [x for x in order_tail if x in pool][0]
                steps = 10**9
            with self.cond:
                self.budget = steps
                self.current = i
                self.cond.notify_all()
                while self.current is not None:
                    if not self.cond.wait(120):
                        raise HarnessError("detsched: thread %d did not yield in 120 s" % i)
                if not self.finished[i]:
                    self.sites.append(self.last_site)
            if set(runnable) <= self.blocked and not segs:
                stuck += 1
                if stuck > 1000:
                    raise Deadlock("all threads blocked")
            else:
                stuck = 0
        for t in ths:
            t.join(10)
        return self.results, self.errors, self.sites
