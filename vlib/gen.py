"""Generation conventions shared by the property modules."""

from hypothesis import strategies as st

BOUNDARY = [0, 1, 2, 99, 100, 101, 255, 256, 65535, 65536,
            2**31 - 1, 2**31, 2**31 + 1, 2**32 - 1, 2**32, 2**32 + 1,
            2**53 - 1, 2**53, 2**53 + 1, 2**63 - 1, 2**63, 2**63 + 1,
            2**64 - 1]


def counter(max_value=2**64 - 1):
    """Boundary-biased non-negative counter."""
    b = [x for x in BOUNDARY if x <= max_value]
    return st.one_of(
        st.sampled_from(b),
        st.integers(0, min(max_value, 10**6)),
        st.integers(0, max_value),
    )


def small_counter():
    return st.one_of(st.sampled_from([0, 1, 2, 7, 99, 100, 101]),
                     st.integers(0, 10**7))


# Format-aware dictionary for process / thread names.
COMM_DICT = [
    b")", b"(", b" (", b") ", b") R 1", b"a) 1 2 3", b"))", b"()", b"( )",
    b" ", b"  ", b"\n", b"\t", b":", b"\\", b"\\n", b" (deleted)",
    b"Uid:\t7\t8\t9", b"Gid:\t7\t8\t9", b"Threads:\t9", b"Tgid:\t1",
    b"PPid:\t77", b"Pss:", b"ctxt_switches:\t5",
    b"\nUid:\t1\t2\t3", b"\xc3\xa9", b"\xe2\x82\xac", b"\xff", b"\x80",
    b"\xc3", b"S", b"Z", b"0", b"1 2", b"%d", b"%s",
    # other line separators (the kernel escapes only \n and \\ in status)
    b"\r", b"\rThreads:\t99", b"x\rPPid:\t1", b"\rUid:\t5\t5\t5\t5", b"\x0b", b"\x0c", b"\x1c", b"\x85",
]


def comm(max_len=15):
    """Any 0..15 byte string without NUL (the kernel stores a C string)."""
    piece = st.one_of(
        st.sampled_from(COMM_DICT),
        st.binary(min_size=0, max_size=6),
        st.text(alphabet="abcxyz-_.0123456789", min_size=0, max_size=8).map(
            str.encode),
    )
    return st.lists(piece, min_size=0, max_size=4).map(
        lambda ps: b"".join(ps).replace(b"\x00", b"")[:max_len])


STATE_LETTERS = [b"R", b"S", b"D", b"T", b"t", b"Z", b"X", b"x", b"K", b"W",
                 b"I", b"P"]
