"""simk - a simulated Linux kernel surface for psutil.

Pure-Python model of the kernel state psutil can observe (process table,
/proc system files, /sys and /dev trees, PID syscalls) plus the interposition
layer that routes psutil's module-level names (open, os, glob, resource, cext,
cext_posix, time) to it.  Nothing in the repository is modified: the proxies
are installed from outside by assigning module attributes.

Trusted base for the simulated tiers.  Formats are written from proc(5) and
the kernel sources, and are calibrated against the live kernel by
vlib/calib.py.
"""

import contextlib
import errno
import fnmatch
import io
import os as _os
import re
import stat as _stat
import threading
import time as _time

REAL_OS = _os
REAL_OPEN = open
import glob as REAL_GLOB  # noqa: E402
import resource as REAL_RESOURCE  # noqa: E402

CLK_TCK = _os.sysconf("SC_CLK_TCK")
PAGESIZE = _os.sysconf("SC_PAGE_SIZE")


def oserr(code, path=None):
    if path is None:
        return OSError(code, _os.strerror(code))
    return OSError(code, _os.strerror(code), path)


# --------------------------------------------------------------------------
# model objects
# --------------------------------------------------------------------------


class Thread:
    def __init__(self, tid, comm=b"t", utime=0, stime=0, state=b"S"):
        self.tid = tid
        self.comm = comm
        self.utime = utime
        self.stime = stime
        self.state = state

    def to_json(self):
        return dict(tid=self.tid, comm=self.comm, utime=self.utime,
                    stime=self.stime, state=self.state)


class FD:
    """One descriptor: readlink target, file offset, open flags."""

    def __init__(self, target, pos=0, flags=0o100000, kind=None):
        self.target = target
        self.pos = pos
        self.flags = flags
        self.kind = kind


class Mapping:
    def __init__(self, addr="00400000-00452000", perms="r-xp", offset="00000000",
                 dev="08:02", inode=173521, path="", fields=None, extra=None):
        self.addr = addr
        self.perms = perms
        self.offset = offset
        self.dev = dev
        self.inode = inode
        self.path = path
        # ordered list of (name, kB) as the kernel prints them
        self.fields = fields or []
        # extra non-kB lines, printed verbatim after the fields
        self.extra = extra or []


_INC = [0]


class Proc:
    """One process incarnation."""

    def __init__(self, pid, **kw):
        _INC[0] += 1
        self.inc = _INC[0]
        self.pid = pid
        self.comm = b"proc"
        self.state = b"S"
        self.ppid = 1
        self.pgrp = pid
        self.session = pid
        self.tty_nr = 0
        self.tpgid = -1
        self.flags = 4194304
        self.minflt = 0
        self.cminflt = 0
        self.majflt = 0
        self.cmajflt = 0
        self.utime = 0
        self.stime = 0
        self.cutime = 0
        self.cstime = 0
        self.priority = 20
        self.nice = 0
        self.itrealvalue = 0
        self.starttime = 1000
        self.vsize = 0
        self.rss = 0
        self.rsslim = 18446744073709551615
        self.processor = 0
        self.rt_priority = 0
        self.policy = 0
        self.blkio = 0  # None => old kernel record without this field
        self.stat_nfields = 52  # total number of fields printed
        self.exit_code = 0
        self.uids = (0, 0, 0, 0)
        self.gids = (0, 0, 0, 0)
        self.vctx = 0
        self.nvctx = 0
        self.threads = None  # list[Thread]; None => single thread == pid
        self.cmdline = b""
        self.environ = b""
        self.exe = "/bin/true"  # None => kernel withholds (ENOENT)
        self.cwd = "/"
        self.fds = {}
        self.statm = (0, 0, 0, 0, 0, 0, 0)
        self.maps = []
        self.rollup = "auto"  # "auto" | "enoent" | "esrch" | bytes
        self.io = None  # bytes override, else rendered from io_counters
        self.io_counters = dict(rchar=0, wchar=0, syscr=0, syscw=0,
                                read_bytes=0, write_bytes=0,
                                cancelled_write_bytes=0)
        self.zombie = False
        self.child = False  # child of the calling process
        self.wait_status = None  # status word reaped by waitpid when set
        self.ioprio = (0, 4)  # (class, data)
        self.affinity = None  # set of cpus; None => all
        self.cpuset = None  # CPUs the task may ever use; None => all
        self.cpus_allowed_list = None  # text override
        self.rlimits = {}
        self.unreadable = set()  # file names refused with EACCES
        self.status_extra = []  # extra raw status lines (bytes) at the end
        self.no_ctxsw = False
        self.dying = False  # directory still there, files gone (issue 2418)
        self.version = 0
        for k, v in kw.items():
            if not hasattr(self, k):
                raise AttributeError(k)
            setattr(self, k, v)

    def thread_list(self):
        if self.threads is None:
            return [Thread(self.pid, self.comm, self.utime, self.stime,
                           self.state)]
        return self.threads


def escape_status_name(comm):
    # fs/proc/array.c proc_task_name(): string_escape_str(...,
    # ESCAPE_SPACE | ESCAPE_SPECIAL, "\n\\")
    return comm.replace(b"\\", b"\\\\").replace(b"\n", b"\\n")


STATE_NAMES = {
    b"R": b"R (running)", b"S": b"S (sleeping)", b"D": b"D (disk sleep)",
    b"T": b"T (stopped)", b"t": b"t (tracing stop)", b"X": b"X (dead)",
    b"Z": b"Z (zombie)", b"P": b"P (parked)", b"I": b"I (idle)",
    b"x": b"x (dead)", b"K": b"K (wakekill)", b"W": b"W (waking)",
}


def render_stat_fields(pid, comm, state, p, utime=None, stime=None):
    """proc(5) /proc/pid/stat, fields numbered as in the man page."""
    f = {
        1: pid, 3: state.decode(), 4: p.ppid, 5: p.pgrp, 6: p.session,
        7: p.tty_nr, 8: p.tpgid, 9: p.flags, 10: p.minflt, 11: p.cminflt,
        12: p.majflt, 13: p.cmajflt,
        14: p.utime if utime is None else utime,
        15: p.stime if stime is None else stime,
        16: p.cutime, 17: p.cstime, 18: p.priority, 19: p.nice,
        20: len(p.thread_list()), 21: p.itrealvalue, 22: p.starttime,
        23: p.vsize, 24: p.rss, 25: p.rsslim, 26: 1, 27: 1, 28: 0, 29: 0,
        30: 0, 31: 0, 32: 0, 33: 0, 34: 0, 35: 0, 36: 0, 37: 0, 38: 17,
        39: p.processor, 40: p.rt_priority, 41: p.policy,
        42: p.blkio if p.blkio is not None else 0, 43: 0, 44: 0, 45: 0,
        46: 0, 47: 0, 48: 0, 49: 0, 50: 0, 51: 0, 52: p.exit_code,
    }
    n = p.stat_nfields
    if p.blkio is None:
        n = min(n, 41)
    out = [str(pid).encode(), b"(" + comm + b")"]
    for i in range(3, n + 1):
        out.append(str(f[i]).encode())
    return b" ".join(out) + b"\n"


def render_cpus_list(cpus):
    cpus = sorted(cpus)
    parts = []
    i = 0
    while i < len(cpus):
        j = i
        while j + 1 < len(cpus) and cpus[j + 1] == cpus[j] + 1:
            j += 1
        parts.append(str(cpus[i]) if i == j else f"{cpus[i]}-{cpus[j]}")
        i = j + 1
    return ",".join(parts)


def render_status(p, kernel):
    aff = p.affinity if p.affinity is not None else set(range(kernel.ncpus))
    mask = 0
    for c in aff:
        mask |= 1 << c
    cal = (p.cpus_allowed_list if p.cpus_allowed_list is not None
           else render_cpus_list(aff))
    lines = [
        b"Name:\t" + escape_status_name(p.comm),
        b"Umask:\t0022",
        b"State:\t" + STATE_NAMES.get(p.state, p.state + b" (unknown)"),
        b"Tgid:\t%d" % p.pid,
        b"Ngid:\t0",
        b"Pid:\t%d" % p.pid,
        b"PPid:\t%d" % p.ppid,
        b"TracerPid:\t0",
        b"Uid:\t%d\t%d\t%d\t%d" % tuple(p.uids),
        b"Gid:\t%d\t%d\t%d\t%d" % tuple(p.gids),
        b"FDSize:\t64",
        b"Groups:\t ",
    ]
    if not p.zombie:
        lines += [
            b"VmPeak:\t    1000 kB",
            b"VmSize:\t    1000 kB",
            b"VmRSS:\t     100 kB",
        ]
    lines += [
        b"Threads:\t%d" % len(p.thread_list()),
        b"SigQ:\t0/15000",
        b"SigPnd:\t0000000000000000",
        b"CapEff:\t000001ffffffffff",
        b"Cpus_allowed:\t%x" % mask,
    ]
    if cal != "":
        lines.append(b"Cpus_allowed_list:\t" + cal.encode())
    lines += [b"Mems_allowed_list:\t0"]
    if not p.no_ctxsw:
        lines += [
            b"voluntary_ctxt_switches:\t%d" % p.vctx,
            b"nonvoluntary_ctxt_switches:\t%d" % p.nvctx,
        ]
    lines += list(p.status_extra)
    return b"\n".join(lines) + b"\n"


def render_io(p):
    if p.io is not None:
        return p.io
    c = p.io_counters
    order = ["rchar", "wchar", "syscr", "syscw", "read_bytes", "write_bytes",
             "cancelled_write_bytes"]
    return b"".join(b"%s: %d\n" % (k.encode(), c[k]) for k in order if k in c)


def render_map_header(m):
    s = "%s %s %s %s %s" % (m.addr, m.perms, m.offset, m.dev, m.inode)
    if m.path:
        # kernel pads to column 73 then prints the path
        s = s.ljust(72) + " " + m.path if len(s) < 72 else s + " " + m.path
        return s.encode("utf-8", "surrogateescape")
    # no path: kernel pads nothing, line ends after inode + space? (it ends
    # right after the inode field with a trailing space in recent kernels)
    return (s + " ").encode()


def smaps_value_line(name, kb):
    # fs/proc/task_mmu.c SEQ_PUT_DEC: the label literal always ends with a
    # blank; the value is right-aligned to 8 columns (7 for the 16-character
    # label "Private_Hugetlb:")
    label = name + ":"
    if len(label) >= 16:
        return ("%s %7d kB" % (label, kb)).encode()
    return ("%-16s%8d kB" % (label, kb)).encode()


def render_smaps(p):
    out = []
    for m in p.maps:
        out.append(render_map_header(m))
        for name, kb in m.fields:
            out.append(smaps_value_line(name, kb))
        for raw in m.extra:
            out.append(raw)
    if not out:
        return b""
    return b"\n".join(out) + b"\n"


ROLLUP_KEYS = ["Rss", "Pss", "Pss_Dirty", "Pss_Anon", "Pss_File", "Pss_Shmem",
               "Shared_Clean", "Shared_Dirty", "Private_Clean",
               "Private_Dirty", "Referenced", "Anonymous", "KSM", "LazyFree",
               "AnonHugePages", "ShmemPmdMapped", "FilePmdMapped",
               "Shared_Hugetlb", "Private_Hugetlb", "Swap", "SwapPss",
               "Locked"]


def render_smaps_rollup(p):
    sums = {}
    for m in p.maps:
        for name, kb in m.fields:
            sums[name] = sums.get(name, 0) + kb
    first = p.maps[0].addr.split("-")[0] if p.maps else "00000000"
    last = p.maps[-1].addr.split("-")[-1] if p.maps else "00000000"
    out = [("%s-%s ---p 00000000 00:00 0" % (first, last)).ljust(72).encode()
           + b" [rollup]"]
    for k in ROLLUP_KEYS:
        if k in sums:
            out.append(smaps_value_line(k, sums[k]))
    return b"\n".join(out) + b"\n"


# --------------------------------------------------------------------------
# the kernel
# --------------------------------------------------------------------------

DIR = object()


class Link:
    def __init__(self, target):
        self.target = target


class Dev:
    """Character device node with st_rdev."""

    def __init__(self, rdev):
        self.rdev = rdev


class Unreadable:
    """File that exists but whose open()/read fails with `code`."""

    def __init__(self, code=errno.EACCES, at="open", data=b""):
        self.code = code
        self.at = at
        self.data = data


class Fault:
    """Action applied just before access number `k` (0-based, counted over
    all logged accesses since the plan was armed)."""

    def __init__(self, k, kind, pid=None, arg=None):
        self.k = k
        self.kind = kind  # vanish | zombify | deny | recycle | closefd | eintr | call
        self.pid = pid
        self.arg = arg


PROCFS_ROOT = "/proc"  # default for new kernels; runner sets it per case
_WRONG_PROCFS = "/sys/sim-literal-proc-while-PROCFS_PATH-is-elsewhere"


def _to_internal(root, path):
    """psutil's view -> simulated namespace, when PROCFS_PATH is `root`."""
    isb = isinstance(path, bytes)
    s = path.decode("utf-8", "surrogateescape") if isb else path
    if not isinstance(s, str):
        return path
    if s == root or s.startswith(root + "/"):
        s = "/proc" + s[len(root):]
    elif s == "/proc" or s.startswith("/proc/"):
        s = _WRONG_PROCFS + s[5:]
    else:
        return path
    return s.encode("utf-8", "surrogateescape") if isb else s


def _to_external(root, path):
    if isinstance(path, str) and (path == "/proc" or path.startswith("/proc/")):
        return root + path[5:]
    return path


class _Moved:
    """Proxy translating the path argument of the named methods (and the
    paths they return) between psutil's view and the simulated namespace."""

    def __init__(self, inner, root, methods, sub=None):
        self._inner = inner
        self._root = root
        self._methods = methods
        if sub:
            self.path = _Moved(inner.path, root, sub)

    def __getattr__(self, name):
        a = getattr(self._inner, name)
        if name not in self._methods:
            return a
        root = self._root

        def call(path, *args, **kw):
            r = a(_to_internal(root, path), *args, **kw)
            if name in ("glob", "iglob"):
                return [_to_external(root, x) for x in r]
            if name == "realpath":
                return _to_external(root, r)
            if name == "walk":
                return ((_to_external(root, t), d, f) for t, d, f in r)
            return r
        return call


class Kernel:
    def __init__(self, ncpus=4, btime=1700000000):
        self.procs = {}  # pid -> Proc
        self.tids = {}  # extra thread ids: tid -> pid (non-leader threads)
        self.files = {}  # absolute path -> bytes | DIR | Link | Dev | Unreadable
        self.ncpus = ncpus
        self.btime = btime
        self.now = 5000.0  # virtual monotonic clock (seconds)
        self.log = []  # access log
        self.log_enabled = True
        self.faults = []
        self.fault_base = 0
        self.self_pid = 4242
        self.statvfs_map = {}
        self.noexec = set()  # regular files without the x bit
        self.kills = []  # delivered signals (pid, sig, incarnation)
        self.kill_attempts = []  # every kill() call (pid, sig)
        self.group_signals = []  # kill() calls with pid <= 0
        self.setcalls = []  # delivered setters
        self.sleeps = []
        self.timer_reads = []
        self.max_time_events = 20000
        self.on_time = None  # callback(now) invoked whenever time advances
        self.waitpid_eintr = set()  # indices of waitpid calls that raise EINTR
        self.waitpid_calls = 0
        self.files["/proc"] = DIR
        self.files["/sys"] = DIR
        self.files["/dev"] = DIR
        # where the caller has told psutil the procfs is (psutil.PROCFS_PATH):
        # with another root, that root is served from the simulated /proc and
        # the literal /proc does not exist (see _Moved)
        self.procfs_root = PROCFS_ROOT
        self.lock = threading.RLock()
        self.access_hook = None  # callable(entry) for schedulers
        self.mounts_real_path = None
        self.users_list = []
        self.sysinfo = (0, 0, 0, 0, 0, 0, 1)
        # False: a host where ::1 cannot be bound (net.ipv6.conf.all.disable_ipv6=1,
        # container loopback without ::1) although the IPv6 socket tables exist
        self.ipv6_bindable = True

    # ---- state manipulation -------------------------------------------

    def add(self, proc):
        self.procs[proc.pid] = proc
        return proc

    def spawn(self, pid, **kw):
        return self.add(Proc(pid, **kw))

    def vanish(self, pid):
        self.procs.pop(pid, None)
        for tid in [t for t, p in self.tids.items() if p == pid]:
            del self.tids[tid]

    def zombify(self, pid):
        p = self.procs.get(pid)
        if p is not None:
            p.zombie = True
            p.state = b"Z"
            p.version += 1

    def set_file(self, path, content):
        """Create a file (and its parent directories)."""
        self.files[path] = content
        d = _os.path.dirname(path)
        while d and d != "/" and d not in self.files:
            self.files[d] = DIR
            d = _os.path.dirname(d)

    def mkdir(self, path):
        self.set_file(path, DIR)

    # ---- access log / faults ------------------------------------------

    def arm(self, faults):
        self.faults = list(faults)
        self.fault_base = len(self.log)

    def _access(self, op, path=None, pid=None, **kw):
        """Record one OS access; apply faults scheduled before it.  Returns
        the Fault to apply *to this access* (deny/eintr) or None."""
        with self.lock:
            k = len(self.log) - self.fault_base
            denied = None
            if self.faults:
                rest = []
                for f in self.faults:
                    if f.k == k:
                        if f.kind == "vanish":
                            self.vanish(f.pid)
                        elif f.kind == "zombify":
                            self.zombify(f.pid)
                        elif f.kind == "dying":
                            if f.pid in self.procs:
                                self.procs[f.pid].dying = True
                        elif f.kind == "recycle":
                            self.vanish(f.pid)
                            self.add(f.arg)
                        elif f.kind == "closefd":
                            p = self.procs.get(f.pid)
                            if p is not None:
                                p.fds.pop(f.arg, None)
                        elif f.kind == "call":
                            f.arg(self)
                        elif f.kind in ("deny", "eintr", "enoent", "esrch"):
                            denied = f
                    else:
                        rest.append(f)
                self.faults = rest
            entry = dict(k=len(self.log), op=op, path=path, pid=pid,
                         thread=threading.get_ident(), **kw)
            if self.log_enabled:
                self.log.append(entry)
            else:
                # keep numbering consistent even when not retaining
                self.log.append(None)
        if self.access_hook is not None:
            self.access_hook(entry)
        if denied is not None:
            if denied.kind == "deny":
                raise oserr(denied.arg or errno.EACCES, path)
            if denied.kind == "eintr":
                raise oserr(errno.EINTR)
            if denied.kind == "enoent":
                raise oserr(errno.ENOENT, path)
            if denied.kind == "esrch":
                raise oserr(errno.ESRCH, path)
        return entry

    # ---- path resolution ----------------------------------------------

    _PROC_PID = re.compile(r"^/proc/(\d+)(?:/(.*))?$")

    def owns(self, path):
        if isinstance(path, bytes):
            path = path.decode("utf-8", "surrogateescape")
        if not isinstance(path, str):
            return False
        return (path == "/proc" or path.startswith("/proc/")
                or path == "/sys" or path.startswith("/sys/")
                or path == "/dev" or path.startswith("/dev/")
                or path in self.files
                or path in self.statvfs_map)

    def _norm(self, path):
        if isinstance(path, bytes):
            path = path.decode("utf-8", "surrogateescape")
        if len(path) > 1 and path.endswith("/"):
            path = path.rstrip("/")
        if path.startswith("/proc/self"):
            path = "/proc/%d%s" % (self.self_pid, path[10:])
        return path

    def _lookup_thread(self, tid):
        """Return (proc, thread) for a task id (leader or not)."""
        p = self.procs.get(tid)
        if p is not None:
            for t in p.thread_list():
                if t.tid == tid:
                    return p, t
            return p, None
        for p in self.procs.values():
            for t in p.thread_list():
                if t.tid == tid:
                    return p, t
        return None, None

    def resolve(self, path):
        """Return a node: bytes | DIR | Link | Dev | ("dirlist", [names]) or
        raise OSError.  Content of /proc/<pid>/* is rendered here."""
        path = self._norm(path)
        m = self._PROC_PID.match(path)
        if m and (int(m.group(1)) in self.procs
                  or self._lookup_thread(int(m.group(1)))[0] is not None
                  or path not in self.files):
            pid = int(m.group(1))
            rest = m.group(2) or ""
            return self._resolve_pid(pid, rest, path)
        try:
            node = self.files[path]
        except KeyError:
            if path == "/proc/stat":
                return self.default_proc_stat()
            raise oserr(errno.ENOENT, path) from None
        return node

    def add_default_sysfiles(self):
        """A plausible minimal set of system files so that as_dict() and
        process_iter(attrs=[]) can run."""
        hdr = b"  sl  local_address rem_address   st tx_queue rx_queue tr tm->when retrnsmt   uid  timeout inode\n"
        for name in ("tcp", "tcp6", "udp", "udp6"):
            self.files.setdefault("/proc/net/" + name, hdr)
        self.files.setdefault("/proc/net/unix", b"Num       RefCount Protocol Flags    Type St Inode Path\n")
        self.files.setdefault("/proc/net", DIR)
        self.files.setdefault("/proc/meminfo", (
            b"MemTotal:        8000000 kB\nMemFree:         4000000 kB\n"
            b"MemAvailable:    6000000 kB\nBuffers:          100000 kB\n"
            b"Cached:          1000000 kB\nShmem:             10000 kB\n"
            b"Active:          2000000 kB\nInactive:        1000000 kB\n"
            b"SReclaimable:     100000 kB\nSlab:             200000 kB\n"
            b"SwapTotal:             0 kB\nSwapFree:              0 kB\n"))

    def default_proc_stat(self):
        n = self.ncpus or 1
        out = ["cpu  %d 0 %d %d 0 0 0 0 0 0" % (10 * n, 5 * n, 1000 * n)]
        out += ["cpu%d 10 0 5 1000 0 0 0 0 0 0" % i for i in range(n)]
        out += ["intr 1000 1 2", "ctxt 5000", "btime %d" % self.btime,
                "processes 100", "procs_running 1", "procs_blocked 0",
                "softirq 300 1 2"]
        return ("\n".join(out) + "\n").encode()

    def listdir_node(self, path):
        path = self._norm(path)
        if path == "/proc":
            names = [str(p) for p, pr in self.procs.items() if not pr.dying and not getattr(pr, "hidden", False)]
            names += sorted({k[6:].split("/")[0] for k in self.files
                             if k.startswith("/proc/")})
            return names
        prefix = path + "/"
        names = []
        seen = set()
        for k in self.files:
            if k.startswith(prefix):
                n = k[len(prefix):].split("/")[0]
                if n not in seen:
                    seen.add(n)
                    names.append(n)
        return names

    def _resolve_pid(self, pid, rest, path):
        p = self.procs.get(pid)
        thread = None
        if p is None:
            # /proc/<tid> is reachable (but not listed) for non-leader tids
            p, thread = self._lookup_thread(pid)
            if p is None:
                raise oserr(errno.ENOENT, path)
        if getattr(p, "hidden", False):
            # /proc mounted with hidepid=2 (or the other procfs of PROCFS_PATH):
            # another user's process exists - kill(pid, 0) says so - but
            # nothing of it is visible
            raise oserr(errno.ENOENT, path)
        parts = rest.split("/") if rest else []
        if not parts:
            return DIR
        if p.dying:
            # psutil issue 2418: the /proc/<pid> directory of an exiting
            # process can still be there while the files in it are gone
            raise oserr(errno.ENOENT, path)
        name = parts[0]
        if name in p.unreadable and len(parts) == 1:
            raise oserr(errno.EACCES, path)
        if thread is not None and name in ("stat", "status") and len(parts) == 1:
            # /proc/<tid>/{stat,status} of a non-leader thread
            if name == "stat":
                return render_stat_fields(thread.tid, thread.comm,
                                          thread.state, p, thread.utime,
                                          thread.stime)
            data = render_status(p, self)
            return data.replace(b"\nPid:\t%d" % p.pid,
                                b"\nPid:\t%d" % thread.tid, 1)
        if name == "stat" and len(parts) == 1:
            return render_stat_fields(p.pid, p.comm, p.state, p)
        if name == "status" and len(parts) == 1:
            return render_status(p, self)
        if name == "statm" and len(parts) == 1:
            if p.zombie:
                return b"0 0 0 0 0 0 0\n"
            return b" ".join(str(x).encode() for x in p.statm) + b"\n"
        if name == "cmdline" and len(parts) == 1:
            return b"" if p.zombie else p.cmdline
        if name == "environ" and len(parts) == 1:
            if p.zombie:
                raise oserr(errno.ESRCH, path)
            return p.environ
        if name == "io" and len(parts) == 1:
            return render_io(p)
        if name == "smaps" and len(parts) == 1:
            return b"" if p.zombie else render_smaps(p)
        if name == "maps" and len(parts) == 1:
            return b""
        if name == "smaps_rollup" and len(parts) == 1:
            if p.zombie or p.rollup == "esrch":
                raise oserr(errno.ESRCH, path)
            if p.rollup == "enoent":
                raise oserr(errno.ENOENT, path)
            if isinstance(p.rollup, bytes):
                return p.rollup
            return render_smaps_rollup(p)
        if name in ("exe", "cwd", "root") and len(parts) == 1:
            tgt = {"exe": p.exe, "cwd": p.cwd, "root": "/"}[name]
            if p.zombie or tgt is None:
                raise oserr(errno.ENOENT, path)
            if isinstance(tgt, int):
                # the kernel refuses this link of a live process with another
                # errno (ESRCH: psutil issue 503)
                raise oserr(tgt, path)
            return Link(tgt)
        if name in ("fd", "fdinfo"):
            if name in p.unreadable:
                raise oserr(errno.EACCES, path)
            fds = {} if p.zombie else p.fds
            if len(parts) == 1:
                return ("dirlist", [str(n) for n in fds])
            try:
                fd = fds[int(parts[1])]
            except (KeyError, ValueError):
                raise oserr(errno.ENOENT, path) from None
            if name == "fd":
                return Link(fd.target)
            return (b"pos:\t%d\nflags:\t%s\nmnt_id:\t29\nino:\t100\n"
                    % (fd.pos, ("0%o" % fd.flags).encode())) + getattr(fd, "extra", b"")
        if name == "task":
            tl = p.thread_list()
            if len(parts) == 1:
                return ("dirlist", [str(t.tid) for t in tl])
            for t in tl:
                if str(t.tid) == parts[1]:
                    break
            else:
                raise oserr(errno.ENOENT, path)
            if len(parts) == 2:
                return DIR
            if parts[2] == "stat" and len(parts) == 3:
                return render_stat_fields(t.tid, t.comm, t.state, p,
                                          t.utime, t.stime)
            raise oserr(errno.ENOENT, path)
        raise oserr(errno.ENOENT, path)

    # ---- generic helpers used by the proxies ---------------------------

    def pid_of_path(self, path):
        m = self._PROC_PID.match(self._norm(path))
        return int(m.group(1)) if m else None


# --------------------------------------------------------------------------
# file objects
# --------------------------------------------------------------------------


_FDINFO = re.compile(r"^/proc/\d+/fdinfo/(\d+)$")


class _SimRaw(io.RawIOBase):
    """Raw file whose content is produced at the first read (like seq_file)
    and whose reads fail with ESRCH once the owning PID is gone."""

    def __init__(self, kernel, path, data, pid, inc, unread=None):
        io.RawIOBase.__init__(self)
        self._k = kernel
        self._path = path
        self._data = data
        self._pos = 0
        self._pid = pid
        self._inc = inc
        self._unread = unread
        self.name = path

    def readable(self):
        return True

    def readinto(self, b):
        k = self._k
        k._access("read", self._path, self._pid)
        if self._pid is not None:
            p = k.procs.get(self._pid)
            if p is None or p.inc != self._inc:
                p2, _t = k._lookup_thread(self._pid)
                if p2 is None or (p is not None and p.inc != self._inc):
                    raise oserr(errno.ESRCH, self._path)
        if self._unread is not None:
            raise oserr(self._unread.code, self._path)
        if self._pos == 0 and self._pid is not None:
            # fs/proc/fd.c seq_show(): the descriptor was closed after the
            # fdinfo file had been opened -> the first read fails with ENOENT
            m = _FDINFO.match(self._path)
            if m is not None:
                p = k.procs.get(self._pid)
                if p is not None and int(m.group(1)) not in p.fds:
                    raise oserr(errno.ENOENT, self._path)
        n = min(len(b), len(self._data) - self._pos)
        b[:n] = self._data[self._pos:self._pos + n]
        self._pos += n
        return n


def _make_open(kernel):
    def sim_open(file, mode="r", buffering=-1, encoding=None, errors=None,
                 newline=None, closefd=True, opener=None):
        if not kernel.owns(file):
            return REAL_OPEN(file, mode, buffering, encoding, errors, newline,
                             closefd, opener)
        path = kernel._norm(file)
        pid = kernel.pid_of_path(path)
        kernel._access("open", path, pid)
        node = kernel.resolve(path)
        unread = None
        if isinstance(node, Unreadable):
            if node.at == "open":
                raise oserr(node.code, path)
            unread = node
            node = node.data
        if node is DIR or (isinstance(node, tuple) and node[0] == "dirlist"):
            raise oserr(errno.EISDIR, path)
        if isinstance(node, Link):
            # follow one level for regular files in the sim tree
            node = kernel.resolve(node.target)
        if isinstance(node, Dev):
            node = b""
        if not isinstance(node, (bytes, bytearray)):
            raise oserr(errno.EINVAL, path)
        inc = None
        if pid is not None:
            p = kernel.procs.get(pid)
            if p is None:
                p, _ = kernel._lookup_thread(pid)
            inc = p.inc if p is not None else None
        raw = _SimRaw(kernel, path, bytes(node), pid, inc, unread)
        bufsize = buffering if buffering and buffering > 0 else 8192
        buf = io.BufferedReader(raw, bufsize)
        if "b" in mode:
            return buf
        return io.TextIOWrapper(buf, encoding=encoding, errors=errors,
                                newline=newline)

    return sim_open


# --------------------------------------------------------------------------
# os / os.path / glob / resource / cext proxies
# --------------------------------------------------------------------------


class _StatResult:
    def __init__(self, mode, rdev=0, size=0, dev=1, ino=1):
        self.st_mode = mode
        self.st_rdev = rdev
        self.st_size = size
        self.st_dev = dev
        self.st_ino = ino
        self.st_nlink = 1
        self.st_uid = 0
        self.st_gid = 0
        self.st_mtime = 0
        self.st_atime = 0
        self.st_ctime = 0


class _StatVFS:
    def __init__(self, f_blocks, f_bfree, f_bavail, f_frsize, f_bsize=4096):
        self.f_blocks = f_blocks
        self.f_bfree = f_bfree
        self.f_bavail = f_bavail
        self.f_frsize = f_frsize
        self.f_bsize = f_bsize
        self.f_files = 0
        self.f_ffree = 0
        self.f_favail = 0
        self.f_flag = 0
        self.f_namemax = 255


class SimPath:
    def __init__(self, kernel, simos):
        self._k = kernel
        self._os = simos

    def __getattr__(self, name):
        return getattr(REAL_OS.path, name)

    def exists(self, path):
        if not self._k.owns(path):
            return REAL_OS.path.exists(path)
        try:
            self._os.stat(path)
        except (OSError, ValueError):
            return False
        return True

    def lexists(self, path):
        if not self._k.owns(path):
            return REAL_OS.path.lexists(path)
        try:
            self._os.lstat(path)
        except (OSError, ValueError):
            return False
        return True

    def isfile(self, path):
        if not self._k.owns(path):
            return REAL_OS.path.isfile(path)
        try:
            st = self._os.stat(path)
        except (OSError, ValueError):
            return False
        return _stat.S_ISREG(st.st_mode)

    def isdir(self, path):
        if not self._k.owns(path):
            return REAL_OS.path.isdir(path)
        try:
            st = self._os.stat(path)
        except (OSError, ValueError):
            return False
        return _stat.S_ISDIR(st.st_mode)

    def islink(self, path):
        if not self._k.owns(path):
            return REAL_OS.path.islink(path)
        try:
            st = self._os.lstat(path)
        except (OSError, ValueError):
            return False
        return _stat.S_ISLNK(st.st_mode)

    def realpath(self, path, **kw):
        if not self._k.owns(path):
            return REAL_OS.path.realpath(path, **kw)
        k = self._k
        path = k._norm(path)
        for _ in range(8):
            try:
                node = k.resolve(path)
            except OSError:
                return path
            if isinstance(node, Link):
                path = node.target
                if not k.owns(path):
                    return path
            else:
                return path
        return path


class SimOS:
    """Stands in for the `os` module inside psutil's modules."""

    def __init__(self, kernel):
        self._k = kernel
        self.path = SimPath(kernel, self)

    def __getattr__(self, name):
        return getattr(REAL_OS, name)

    # -- filesystem

    def _stat_node(self, path, follow):
        k = self._k
        npath = k._norm(path)
        for _ in range(8):
            node = k.resolve(npath)
            if isinstance(node, Link) and follow:
                tgt = node.target
                if not k.owns(tgt):
                    return REAL_OS.stat(tgt)
                npath = k._norm(tgt)
                continue
            break
        if isinstance(node, Unreadable):
            node = node.data
        if node is DIR or (isinstance(node, tuple) and node[0] == "dirlist"):
            return _StatResult(_stat.S_IFDIR | 0o555)
        if isinstance(node, Link):
            return _StatResult(_stat.S_IFLNK | 0o777)
        if isinstance(node, Dev):
            return _StatResult(_stat.S_IFCHR | 0o620, rdev=node.rdev)
        return _StatResult(_stat.S_IFREG | 0o444, size=len(node))

    def stat(self, path, *a, **kw):
        k = self._k
        if not k.owns(path):
            return REAL_OS.stat(path, *a, **kw)
        k._access("stat", k._norm(path), k.pid_of_path(path))
        return self._stat_node(path, bool(kw.get("follow_symlinks", True)))

    def lstat(self, path, *a, **kw):
        k = self._k
        if not k.owns(path):
            return REAL_OS.lstat(path, *a, **kw)
        k._access("lstat", k._norm(path), k.pid_of_path(path))
        return self._stat_node(path, False)

    def access(self, path, mode, **kw):
        k = self._k
        if not k.owns(path):
            return REAL_OS.access(path, mode, **kw)
        k._access("access", k._norm(path), k.pid_of_path(path))
        try:
            self._stat_node(path, True)
        except OSError:
            return False
        if mode & REAL_OS.X_OK and k._norm(path) in k.noexec:
            return False
        return True

    def listdir(self, path="."):
        k = self._k
        if not k.owns(path):
            return REAL_OS.listdir(path)
        isb = isinstance(path, bytes)
        npath = k._norm(path)
        k._access("listdir", npath, k.pid_of_path(npath))
        if npath == "/proc":
            names = k.listdir_node(npath)
        else:
            node = k.resolve(npath)
            if isinstance(node, tuple) and node[0] == "dirlist":
                names = list(node[1])
            elif node is DIR:
                if k.pid_of_path(npath) is not None and npath.count("/") == 2:
                    names = ["stat", "status", "statm", "cmdline", "environ",
                             "io", "smaps", "fd", "fdinfo", "task", "exe",
                             "cwd"]
                else:
                    names = k.listdir_node(npath)
            elif isinstance(node, Link):
                names = k.listdir_node(k._norm(node.target))
            else:
                raise oserr(errno.ENOTDIR, npath)
        if isb:
            return [n.encode() for n in names]
        return names

    def readlink(self, path, **kw):
        k = self._k
        if not k.owns(path):
            return REAL_OS.readlink(path, **kw)
        npath = k._norm(path)
        k._access("readlink", npath, k.pid_of_path(npath))
        node = k.resolve(npath)
        if not isinstance(node, Link):
            raise oserr(errno.EINVAL, npath)
        return node.target

    def walk(self, top, **kw):
        k = self._k
        if not k.owns(top):
            yield from REAL_OS.walk(top, **kw)
            return
        top = k._norm(top)
        try:
            names = self.listdir(top)
        except OSError:
            return
        dirs, files = [], []
        for n in names:
            full = top + "/" + n
            try:
                node = k.resolve(full)
            except OSError:
                continue
            if isinstance(node, Link):
                # os.walk does not follow symlinks to dirs by default but
                # lists them under dirs
                tgt = k.files.get(k._norm(node.target))
                (dirs if tgt is DIR else files).append(n)
                if tgt is DIR:
                    # followlinks=False: listed, not descended; we emulate
                    # sysfs layout where /sys/block/<x> is itself a link
                    pass
            elif node is DIR:
                dirs.append(n)
            else:
                files.append(n)
        yield top, dirs, files
        for d in dirs:
            full = top + "/" + d
            node = k.files.get(full)
            if isinstance(node, Link):
                continue
            yield from self.walk(full)

    def statvfs(self, path):
        k = self._k
        if path in k.statvfs_map:
            k._access("statvfs", path)
            v = k.statvfs_map[path]
            if isinstance(v, OSError):
                raise v
            return _StatVFS(*v)
        return REAL_OS.statvfs(path)

    # -- processes

    def getpid(self):
        return self._k.self_pid

    def sysconf(self, name):
        if name == "SC_NPROCESSORS_ONLN":
            v = self._k.ncpus
            if v is None:
                raise ValueError("unrecognized configuration name")
            return v
        return REAL_OS.sysconf(name)

    def kill(self, pid, sig):
        k = self._k
        entry = k._access("kill", None, pid, sig=sig)
        entry["time"] = k.now
        if not isinstance(pid, int) or isinstance(pid, bool):
            raise TypeError("an integer is required")
        if not -2**31 <= pid < 2**31:
            raise OverflowError("signed integer is greater than maximum")
        k.kill_attempts.append((pid, sig))
        if pid <= 0:
            # process group semantics: recorded, nothing else
            k.group_signals.append((pid, sig))
            return None
        if not 0 <= sig <= 64:
            raise oserr(errno.EINVAL)
        p = k.procs.get(pid)
        if p is None:
            p, _t = k._lookup_thread(pid)
        if p is None or p.dying:
            raise oserr(errno.ESRCH)
        if "kill" in p.unreadable:
            raise oserr(errno.EPERM)
        if sig != 0:
            k.kills.append((pid, sig, p.inc))  # delivered
        entry["result"] = "alive"
        return None

    def waitpid(self, pid, options):
        k = self._k
        idx = k.waitpid_calls
        k.waitpid_calls += 1
        entry = k._access("waitpid", None, pid, options=options)
        if idx in k.waitpid_eintr:
            entry["result"] = "EINTR"
            raise oserr(errno.EINTR)
        p = k.procs.get(pid)
        if p is None or not p.child:
            entry["result"] = "ECHILD"
            raise oserr(errno.ECHILD)
        entry["result"] = "alive" if p.wait_status is None else "reaped"
        entry["time"] = k.now
        if p.wait_status is None:
            if options & REAL_OS.WNOHANG:
                return (0, 0)
            # blocking wait: advance virtual time to the exit instant
            if k.on_block is not None:
                k.on_block(pid)
                p = k.procs.get(pid)
                if p is not None and p.wait_status is not None:
                    st = p.wait_status
                    k.vanish(pid)
                    return (pid, st)
            raise HarnessDeadlock("blocking waitpid on a process that never exits")
        st = p.wait_status
        k.vanish(pid)
        return (pid, st)

    on_block = None


class HarnessDeadlock(Exception):
    pass


Kernel.on_block = None


class SimGlob:
    def __init__(self, kernel, simos):
        self._k = kernel
        self._os = simos

    def __getattr__(self, name):
        return getattr(REAL_GLOB, name)

    def glob(self, pattern, **kw):
        k = self._k
        if not k.owns(pattern.split("*")[0].split("[")[0].split("?")[0] or "/x"):
            return REAL_GLOB.glob(pattern, **kw)
        k._access("glob", pattern)
        return self._expand(pattern)

    def iglob(self, pattern, **kw):
        return iter(self.glob(pattern, **kw))

    def _expand(self, pattern):
        parts = pattern.strip("/").split("/")
        cur = [""]
        for part in parts:
            nxt = []
            magic = any(c in part for c in "*?[")
            for base in cur:
                d = base or "/"
                if not magic:
                    cand = base + "/" + part
                    if self._exists(cand):
                        nxt.append(cand)
                    continue
                try:
                    names = self._list(d)
                except OSError:
                    continue
                for n in sorted(names):
                    if n.startswith(".") and not part.startswith("."):
                        continue
                    if fnmatch.fnmatchcase(n, part):
                        nxt.append(base + "/" + n)
            cur = nxt
        return cur

    def _exists(self, path):
        k = self._k
        try:
            k.resolve(path)
            return True
        except OSError:
            return False

    def _list(self, d):
        k = self._k
        d = k._norm(d)
        for _ in range(4):
            node = k.resolve(d) if d != "/proc" else DIR
            if isinstance(node, Link):
                d = k._norm(node.target)
                continue
            break
        if isinstance(node, tuple) and node[0] == "dirlist":
            return list(node[1])
        if node is not DIR:
            raise oserr(errno.ENOTDIR, d)
        return k.listdir_node(d)


class SimResource:
    def __init__(self, kernel):
        self._k = kernel

    def __getattr__(self, name):
        return getattr(REAL_RESOURCE, name)

    def prlimit(self, pid, res, limits=None):
        k = self._k
        k._access("prlimit", None, pid, res=res, limits=limits)
        if pid == 0:
            pid = k.self_pid
        p = k.procs.get(pid)
        if p is None or p.dying:
            raise oserr(errno.ESRCH)
        old = p.rlimits.get(res, (REAL_RESOURCE.RLIM_INFINITY,
                                  REAL_RESOURCE.RLIM_INFINITY))
        if limits is not None:
            if "prlimit" in p.unreadable:
                raise oserr(errno.EPERM)
            soft, hard = limits
            k.setcalls.append(("prlimit", pid, res, (soft, hard), p.inc))
            if p.zombie:
                pass
            p.rlimits[res] = (soft, hard)
        return old


class SimCext:
    """Proxy for psutil._psutil_linux / _psutil_posix."""

    def __init__(self, kernel, real):
        self._k = kernel
        self._real = real

    def __getattr__(self, name):
        return getattr(self._real, name)

    def _proc(self, pid, what):
        k = self._k
        p = k.procs.get(pid)
        if p is None or p.dying:
            raise oserr(errno.ESRCH)
        if what in p.unreadable:
            raise oserr(errno.EPERM)
        return p

    # posix
    def getpriority(self, pid):
        self._k._access("getpriority", None, pid)
        return self._proc(pid, "getpriority").nice

    def setpriority(self, pid, value):
        k = self._k
        k._access("setpriority", None, pid, value=value)
        p = self._proc(pid, "setpriority")
        k.setcalls.append(("setpriority", pid, value, p.inc))
        p.nice = max(-20, min(19, value))

    def getpagesize(self):
        return PAGESIZE

    # linux
    def proc_ioprio_get(self, pid):
        self._k._access("ioprio_get", None, pid)
        return self._proc(pid, "ioprio_get").ioprio

    def proc_ioprio_set(self, pid, ioclass, data):
        k = self._k
        k._access("ioprio_set", None, pid, ioclass=ioclass, data=data)
        p = self._proc(pid, "ioprio_set")
        k.setcalls.append(("ioprio_set", pid, int(ioclass), data, p.inc))
        p.ioprio = (int(ioclass), data)

    def proc_cpu_affinity_get(self, pid):
        k = self._k
        k._access("sched_getaffinity", None, pid)
        p = self._proc(pid, "sched_getaffinity")
        aff = p.affinity if p.affinity is not None else set(range(k.ncpus))
        return sorted(aff)

    def proc_cpu_affinity_set(self, pid, cpus):
        k = self._k
        k._access("sched_setaffinity", None, pid, cpus=list(cpus))
        p = self._proc(pid, "sched_setaffinity")
        for c in cpus:
            if not isinstance(c, int):
                raise TypeError("sequence of integers expected")
            if c < 0:
                raise ValueError("invalid CPU value")
            if c > 2**63 - 1:   # PyLong_AsLong on LP64; CPU_SET() ignores indexes beyond the set
                raise OverflowError("Python int too large to convert to C long")
        # kernel: requested mask AND the CPUs the task may use (cpuset)
        allowed = set(range(k.ncpus)) if p.cpuset is None else set(p.cpuset)
        eff = set(cpus) & allowed
        if not eff:
            raise oserr(errno.EINVAL)
        k.setcalls.append(("sched_setaffinity", pid, tuple(cpus), p.inc))
        p.affinity = eff

    def disk_partitions(self, path):
        if self._k.mounts_real_path is not None:
            return self._real.disk_partitions(self._k.mounts_real_path)
        return self._real.disk_partitions(path)

    def users(self):
        return list(self._k.users_list)

    def linux_sysinfo(self):
        return self._k.sysinfo


# --------------------------------------------------------------------------
# virtual time
# --------------------------------------------------------------------------


class VirtualTimeExhausted(Exception):
    """Step bound of the virtual clock (termination guard, not a wall clock)."""


class SimTime:
    def __init__(self, kernel):
        self._k = kernel

    def __getattr__(self, name):
        return getattr(_time, name)

    def _advance(self, dt):
        k = self._k
        if dt > 0:
            k.now += dt
            if k.on_time is not None:
                k.on_time(k.now)

    def monotonic(self):
        k = self._k
        k.timer_reads.append(k.now)
        if len(k.timer_reads) > k.max_time_events:
            raise VirtualTimeExhausted("more than %d clock readings" % k.max_time_events)
        return k.now

    def time(self):
        return self._k.btime + self._k.now

    def sleep(self, secs):
        k = self._k
        k.sleeps.append((k.now, secs))
        if len(k.sleeps) > k.max_time_events:
            raise VirtualTimeExhausted("more than %d sleeps" % k.max_time_events)
        if secs < 0:
            raise ValueError("sleep length must be non-negative")
        # a sleep may last longer than asked for (loaded machine, SIGSTOP)
        self._advance(secs * (1 + getattr(k, "oversleep", 0)))


# --------------------------------------------------------------------------
# installation
# --------------------------------------------------------------------------


# "full": a case starts from a pristine psutil (every memoised function
# cleared).  "documented-only": used between the prelude and the main part of
# one case (runner.Property(prelude=True)): only the state psutil is known /
# documented to keep across calls is reset, so that anything else a change
# under test starts remembering stays visible to the main part.
RESET_MODE = "full"


def reset_psutil_state(psutil, keep_cpu_last=False):
    import psutil._common as C
    import psutil._pslinux as L
    import psutil._psposix as PX

    psutil._pmap = {}
    psutil._pids_reused = set()
    psutil._LOWEST_PID = None
    psutil._TOTAL_PHYMEM = None
    if not keep_cpu_last:
        psutil._last_cpu_times = {}
        psutil._last_per_cpu_times = {}
        psutil._last_cpu_times_2 = {}
        psutil._last_per_cpu_times_2 = {}
    L.BOOT_TIME = None
    C._wn.cache_clear()
    PX.get_terminal_map.cache_clear()
    L.set_scputimes_ntuple.cache_clear()
    if RESET_MODE != "full":
        return
    # any other memoised module-level function (also ones a change under test
    # introduces): a case must not inherit answers from the previous case,
    # else its replay file would not reproduce on its own
    for mod in (psutil, C, L, PX):
        for obj in list(vars(mod).values()):
            cc = getattr(obj, "cache_clear", None)
            if callable(cc) and callable(obj) and not isinstance(obj, type):
                try:
                    cc()
                except Exception:  # noqa: BLE001
                    pass


class _NoV6SocketModule:
    """The socket module of a host on which an AF_INET6 socket cannot be bound
    to ::1."""

    def __init__(self, real):
        self._real = real

    def __getattr__(self, name):
        return getattr(self._real, name)

    def socket(self, family=-1, *a, **kw):
        real = self._real
        if family == real.AF_INET6:
            class _S:
                def __enter__(self_):
                    return self_

                def __exit__(self_, *exc):
                    return False

                def bind(self_, addr):
                    raise oserr(errno.EADDRNOTAVAIL)

                def close(self_):
                    pass
            return _S()
        return real.socket(family, *a, **kw)


@contextlib.contextmanager
def installed(kernel, reset=True, virtual_time=True):
    """Route psutil's OS access to `kernel` for the duration of the block."""
    import psutil
    import psutil._common as C
    import psutil._pslinux as L
    import psutil._psposix as PX

    simos = SimOS(kernel)
    simglob = SimGlob(kernel, simos)
    simtime = SimTime(kernel)
    saved = []
    sim_open = _make_open(kernel)
    kernel.simos = simos
    root = kernel.procfs_root
    if root != "/proc":
        simos = _Moved(simos, root, ("stat", "lstat", "access", "listdir", "readlink", "walk", "statvfs"),
                       sub=("exists", "lexists", "isfile", "isdir", "islink", "realpath"))
        simglob = _Moved(simglob, root, ("glob",))
        _inner_open = sim_open

        def sim_open(file, *a, **kw):
            return _inner_open(_to_internal(root, file), *a, **kw)

    def patch(mod, name, value, create=False):
        if hasattr(mod, name) or create:
            saved.append((mod, name, getattr(mod, name, _MISSING)))
            setattr(mod, name, value)

    patch(C, "open", sim_open, create=True)
    patch(psutil, "PROCFS_PATH", root)
    patch(C, "os", simos)
    if not kernel.ipv6_bindable and hasattr(C, "socket"):
        patch(C, "socket", _NoV6SocketModule(C.socket))
    patch(L, "os", simos)
    patch(L, "glob", simglob)
    patch(L, "resource", SimResource(kernel))
    patch(L, "cext", SimCext(kernel, L.cext))
    patch(L, "cext_posix", SimCext(kernel, L.cext_posix))
    patch(L, "PAGESIZE", PAGESIZE)
    patch(PX, "os", simos)
    patch(PX, "glob", simglob)
    patch(psutil, "os", simos)
    old_defaults = PX.wait_pid.__defaults__
    if virtual_time:
        patch(psutil, "time", simtime)
        patch(psutil, "_timer", simtime.monotonic)
        patch(PX, "time", simtime)
        d = list(old_defaults)
        # (timeout, proc_name, _waitpid, _timer, _min, _sleep, _pid_exists)
        d[2] = simos.waitpid
        d[3] = simtime.monotonic
        d[5] = simtime.sleep
        PX.wait_pid.__defaults__ = tuple(d)
    kernel.simtime = simtime
    if reset:
        reset_psutil_state(psutil)
    try:
        yield kernel
    finally:
        PX.wait_pid.__defaults__ = old_defaults
        for mod, name, old in reversed(saved):
            if old is _MISSING:
                delattr(mod, name)
            else:
                setattr(mod, name, old)
        if reset:
            reset_psutil_state(psutil)


_MISSING = object()
