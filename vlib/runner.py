"""Shared runner: sharded Hypothesis search, replay tier, known findings,
evidence files, exit codes.

A property module defines

    PROP = Property(
        id="C06", level="exploration", rule="...", assumptions=[...],
        strategy=<callable tier -> hypothesis strategy producing a JSON-able case>,
        run_case=<callable case -> Result>,   # raises Violation on oracle failure
        budgets={"quick": N, "thorough": M},
        calibrate=<optional callable -> dict>,
    )
    if __name__ == "__main__": main(PROP)

``run_case`` must be a pure function of (tree, case).  It returns a
``Result(labels=[...], nontrivial=<hashable or None>)``.

Exit codes: 0 held / 1 violation / 2 harness error.
"""

import argparse
import functools
import collections
import hashlib
import json
import multiprocessing
import os
import sys
import time
import traceback

VERIF_DIR = os.environ.get(
    "VERIF_DIR", os.path.dirname(os.path.dirname(os.path.abspath(__file__)))
)


class Violation(Exception):
    """The property does not hold for this case."""

    def __init__(self, clause, detail=""):
        Exception.__init__(self, f"{clause}: {detail}")
        self.clause = clause
        self.detail = detail


class HarnessError(Exception):
    """The machinery is broken (never reported as a violation)."""


class Result:
    __slots__ = ("labels", "nontrivial", "extra")

    def __init__(self, labels=(), nontrivial=None, extra=None):
        # labels: iterable of names, or {name: count}
        self.labels = labels if isinstance(labels, dict) else list(labels)
        self.nontrivial = nontrivial
        self.extra = extra


# ---------------------------------------------------------------- JSON


def to_jsonable(o):
    if isinstance(o, (bytes, bytearray)):
        return {"$b": bytes(o).decode("latin-1")}
    if isinstance(o, dict):
        if all(isinstance(k, str) for k in o):
            return {k: to_jsonable(v) for k, v in o.items()}
        return {"$d": [[to_jsonable(k), to_jsonable(v)] for k, v in o.items()]}
    if isinstance(o, (list, tuple)):
        return [to_jsonable(x) for x in o]
    if isinstance(o, (set, frozenset)):
        return {"$s": [to_jsonable(x) for x in sorted(o, key=repr)]}
    if isinstance(o, float):
        if o != o or o in (float("inf"), float("-inf")):
            return {"$f": repr(o)}
        return o
    if isinstance(o, (int, str, bool)) or o is None:
        return o
    return {"$r": repr(o)}


def from_jsonable(o):
    if isinstance(o, dict):
        if set(o) == {"$b"}:
            return o["$b"].encode("latin-1")
        if set(o) == {"$d"}:
            return {
                _hashable(from_jsonable(k)): from_jsonable(v)
                for k, v in o["$d"]
            }
        if set(o) == {"$s"}:
            return {_hashable(from_jsonable(x)) for x in o["$s"]}
        if set(o) == {"$f"}:
            return float(o["$f"])
        return {k: from_jsonable(v) for k, v in o.items()}
    if isinstance(o, list):
        return [from_jsonable(x) for x in o]
    return o


def _hashable(x):
    if isinstance(x, list):
        return tuple(_hashable(i) for i in x)
    return x


def canon(o):
    return json.dumps(to_jsonable(o), sort_keys=True, separators=(",", ":"))


def case_hash(o):
    return hashlib.sha1(canon(o).encode()).hexdigest()[:12]


# ---------------------------------------------------------------- property


def _escaped_from_psutil(e):
    """True when the innermost frame of the traceback is code of the psutil
    tree under test (not the harness, not Hypothesis, not the stdlib)."""
    tb = e.__traceback__
    last = None
    while tb is not None:
        last = tb
        tb = tb.tb_next
    if last is None:
        return False
    fn = os.path.abspath(last.tb_frame.f_code.co_filename)
    root = os.environ.get("VERIF_REPO_COPY")
    if root:
        return fn.startswith(os.path.join(os.path.abspath(root), "psutil") + os.sep)
    return (os.sep + "psutil" + os.sep) in fn and not fn.startswith(VERIF_DIR)


def _guard(run_case):
    """An exception that is raised *inside psutil* and that the property's
    own oracle did not anticipate is reported as a violation (clause
    `unexpected-exception`) instead of a harness error: psutil's documented
    error types are handled by the oracles, anything else escaping from its
    code for a generated input means the call neither returned a value nor
    raised a psutil error."""
    @functools.wraps(run_case)
    def wrapper(case):
        try:
            return run_case(case)
        except (Violation, HarnessError, KeyboardInterrupt, MemoryError):
            raise
        except Exception as e:  # noqa: BLE001
            if type(e).__name__ in ("VirtualTimeExhausted", "Unsatisfiable") \
                    or type(e).__module__.startswith("hypothesis"):
                raise
            if _escaped_from_psutil(e):
                tb = "".join(traceback.format_exception(type(e), e, e.__traceback__))[-900:]
                raise Violation("unexpected-exception", f"{e!r} escaped from psutil:\n{tb}") from None
            raise
    return wrapper


class Property:
    def __init__(
        self,
        id,
        level,
        rule,
        strategy,
        run_case,
        budgets,
        assumptions=(),
        calibrate=None,
        extra_tiers=None,
        shards=None,
        trusted_base=(),
        prelude=False,
    ):
        self.id = id
        self.level = level
        self.rule = rule
        self.strategy = strategy
        self.run_case = run_case = _guard(run_case)
        self.budgets = budgets
        self.assumptions = list(assumptions)
        self.calibrate = calibrate
        # extra_tiers: list of (name, callable(tier, seed, stats) -> None);
        # each may raise Violation via stats.fail(case, violation)
        self.extra_tiers = extra_tiers or []
        self.shards = shards
        self.trusted_base = list(trusted_base)
        # prelude=True ("history independence"): a third of the generated
        # cases are pairs {"__prelude__": case A, "__main__": case B}; A runs
        # first (its own oracle applies), then B runs in the same interpreter
        # with only psutil's documented cross-call state reset.  B's oracle is
        # unchanged, i.e. B's answers may not depend on A having been
        # observed before.  Plain cases (and old replay files) run as before.
        self.prelude = prelude
        if prelude:
            self._plain_strategy = strategy
            self._plain_run_case = run_case
            self.strategy = self._pair_strategy
            self.run_case = self._pair_run_case

    def _pair_strategy(self, tier):
        from hypothesis import strategies as st

        plain = self._plain_strategy(tier)
        pair = st.fixed_dictionaries({"__prelude__": plain, "__main__": plain},
                                     optional={"__procfs__": st.sampled_from(MOVED_PROCFS)})
        # the caller may have told psutil that procfs is mounted elsewhere
        # (psutil.PROCFS_PATH, documented): same kernel files, other root
        moved = st.fixed_dictionaries({"__main__": plain, "__procfs__": st.sampled_from(MOVED_PROCFS)})
        return st.one_of(plain, plain, plain, pair, pair, moved)

    def _pair_run_case(self, case):
        from vlib import simk

        if not (isinstance(case, dict) and "__main__" in case):
            return self._plain_run_case(case)
        root = case.get("__procfs__", "/proc")
        simk.PROCFS_ROOT = root
        where = "" if root == "/proc" else f"[PROCFS_PATH={root}] "
        try:
            if "__prelude__" in case:
                pre = dict(case["__prelude__"])
                pre.pop("allow_known", None)
                try:
                    self._plain_run_case(pre)
                except Violation as v:
                    raise Violation(v.clause, where + "[prelude part] " + str(v.detail)) from None
                simk.RESET_MODE = "documented-only"
            try:
                res = self._plain_run_case(case["__main__"])
            except Violation as v:
                raise Violation(v.clause, where + ("[after a prelude case] " if "__prelude__" in case else "")
                                + str(v.detail)) from None
        finally:
            simk.RESET_MODE = "full"
            simk.PROCFS_ROOT = "/proc"
        tags = (["after-prelude"] if "__prelude__" in case else []) + (["procfs-moved"] if where else [])
        labels = res.labels
        if isinstance(labels, dict):
            labels = dict(labels)
            for t in tags:
                labels[t] = 1
        else:
            labels = list(labels) + tags
        nt = res.nontrivial
        if isinstance(nt, str):
            nt = "P|" + nt
        elif nt:
            nt = ["P|" + x for x in nt]
        return Result(labels, nt, res.extra)


MOVED_PROCFS = ("/host/proc", "/sim/procfs")


class Stats:
    """Per-process statistics (mergeable)."""

    def __init__(self):
        self.evaluations = 0
        self.cases = 0
        self.labels = collections.Counter()
        self.nontrivial = set()
        self.samples = []
        self.failures = []  # (clause, detail, case_jsonable)
        self.known_hits = collections.Counter()
        self.excluded = 0
        self.notes = {}

    def record(self, case, res, keep_sample=True):
        self.evaluations += (res.extra or {}).get("evaluations", 1)
        self.cases += 1
        for lab in res.labels:
            self.labels[lab] += 1
        if isinstance(res.labels, dict):
            for lab, n in res.labels.items():
                self.labels[lab] += n - 1
        if res.extra:
            self.excluded += res.extra.get("excluded", 0)
        if res.nontrivial is not None:
            keys = (res.nontrivial if isinstance(res.nontrivial, (list, set, frozenset))
                    else [res.nontrivial])
            for key in keys:
                self.nontrivial.add(key if isinstance(key, str) else canon(key))
            if keep_sample and len(self.samples) < 3 and keys:
                sample = (res.extra or {}).get("sample")
                self.samples.append(to_jsonable(sample if sample is not None else case))

    def fail(self, case, v):
        self.failures.append((v.clause, str(v.detail)[:2000], to_jsonable(case)))

    def merge(self, other):
        self.evaluations += other.evaluations
        self.cases += other.cases
        self.labels.update(other.labels)
        self.nontrivial |= other.nontrivial
        for s in other.samples:
            if len(self.samples) < 6:
                self.samples.append(s)
        self.failures.extend(other.failures)
        self.known_hits.update(other.known_hits)
        self.excluded += other.excluded
        for k, v in other.notes.items():
            if isinstance(v, (int, float)) and isinstance(
                self.notes.get(k), (int, float)
            ):
                self.notes[k] += v
            else:
                self.notes.setdefault(k, v)


def known_keys(prop_id):
    """Keys of the known (unrepaired) findings listed for this property."""
    return {e["key"] for e in load_known(prop_id)}


def load_known(prop_id):
    path = os.path.join(VERIF_DIR, "known_findings.json")
    try:
        with open(path) as f:
            data = json.load(f)
    except FileNotFoundError:
        return []
    return [e for e in data.get("known", []) if e.get("property") == prop_id]


# ---------------------------------------------------------------- search


def _shard_worker(args):
    prop_mod, tier, seed, shard, nshards, budget = args
    import importlib

    mod = importlib.import_module(prop_mod)
    prop = mod.PROP
    return _run_shard(prop, tier, seed, shard, nshards, budget)


def _run_shard(prop, tier, seed, shard, nshards, budget):
    import hypothesis
    from hypothesis import HealthCheck
    from hypothesis import Phase
    from hypothesis import given
    from hypothesis import settings

    stats = Stats()
    strat = prop.strategy(tier)
    derived = (seed * 1000003 + shard * 7919 + 17) % (2**63)
    last_fail = {}

    @hypothesis.seed(derived)
    @settings(
        max_examples=budget,
        deadline=None,
        database=None,
        derandomize=False,
        report_multiple_bugs=False,
        suppress_health_check=list(HealthCheck),
        phases=[Phase.generate, Phase.shrink],
        print_blob=False,
    )
    @given(strat)
    def test(case):
        try:
            res = prop.run_case(case)
        except Violation as v:
            last_fail["case"] = case
            last_fail["v"] = v
            raise
        stats.record(case, res)

    t0 = time.time()
    try:
        test()
    except Violation:
        stats.fail(last_fail["case"], last_fail["v"])
    except hypothesis.errors.Unsatisfiable as e:
        raise HarnessError(f"generator unsatisfiable: {e}")
    except BaseException as e:
        # An exception that is not a Violation escaped run_case: harness bug
        # (run_case is responsible for turning *oracle* failures, including
        # unexpected exceptions out of psutil, into Violation).
        if "case" in last_fail:
            stats.fail(last_fail["case"], last_fail["v"])
        else:
            raise HarnessError(
                "".join(traceback.format_exception(type(e), e, e.__traceback__))
            )
    stats.notes["shard_wall_s_max"] = time.time() - t0
    return stats


def run_search(prop, prop_mod, tier, seed, budget, nshards):
    nshards = max(1, min(nshards, budget))
    per = max(1, budget // nshards)
    jobs = [(prop_mod, tier, seed, i, nshards, per) for i in range(nshards)]
    total = Stats()
    if nshards == 1:
        total.merge(_shard_worker(jobs[0]))
        return total
    ctx = multiprocessing.get_context("fork")
    with ctx.Pool(nshards) as pool:
        for st in pool.imap_unordered(_shard_worker, jobs):
            total.merge(st)
    return total


# ---------------------------------------------------------------- main


def _replay_dir(prop_id):
    return os.path.join(VERIF_DIR, "replays", prop_id)


def _write_failure(prop_id, clause, detail, case_json):
    d = os.path.join(VERIF_DIR, "failures", prop_id)
    os.makedirs(d, exist_ok=True)
    h = hashlib.sha1(
        json.dumps(case_json, sort_keys=True).encode()
    ).hexdigest()[:12]
    path = os.path.join(d, f"{h}.json")
    with open(path, "w") as f:
        json.dump(
            {"property": prop_id, "clause": clause, "detail": detail,
             "case": case_json},
            f, indent=1, sort_keys=True,
        )
    return path


def run_replay_file(prop, path):
    with open(path) as f:
        data = json.load(f)
    case = from_jsonable(data["case"])
    return case, prop.run_case(case)


def main(prop, prop_mod=None):
    ap = argparse.ArgumentParser()
    ap.add_argument("--replay")
    ap.add_argument("--budget", type=int)
    ap.add_argument("--shards", type=int)
    ap.add_argument("--no-evidence", action="store_true")
    ns = ap.parse_args()
    tier = os.environ.get("VERIF_TIER", "quick")
    if tier not in ("quick", "thorough"):
        tier = "quick"
    try:
        seed = int(os.environ.get("VERIF_SEED", "1"))
    except ValueError:
        seed = 1
    if prop_mod is None:
        prop_mod = sys.modules["__main__"].__spec__.name
    t0 = time.time()
    try:
        rc = _main(prop, prop_mod, tier, seed, ns, t0)
    except HarnessError as e:
        print(f"HARNESS-ERROR: {e}")
        rc = 2
    except Exception:
        print("HARNESS-ERROR: unexpected exception in harness")
        traceback.print_exc()
        rc = 2
    sys.stdout.flush()
    sys.exit(rc)


def _check_repo_copy():
    import psutil

    want = os.environ.get("VERIF_REPO_COPY")
    if want and not os.path.abspath(psutil.__file__).startswith(
        os.path.abspath(want)
    ):
        raise HarnessError(
            f"psutil imported from {psutil.__file__}, expected under {want}"
        )


def _main(prop, prop_mod, tier, seed, ns, t0):
    _check_repo_copy()
    if ns.replay:
        try:
            case, res = run_replay_file(prop, ns.replay)
        except Violation as v:
            print(f"replay: {v.clause}: {str(v.detail)[:1500]}")
            print(f"VIOLATION property={prop.id} replay={ns.replay}")
            return 1
        print(f"replay ok: labels={res.labels}")
        return 0

    known = load_known(prop.id)
    stats = Stats()
    violations = []  # (clause, detail, path)
    calib = None
    if prop.calibrate is not None:
        calib = prop.calibrate()

    # 1. replay tier: committed regression inputs.
    known_by_replay = {e["replay"]: e for e in known if e.get("replay")}
    rdir = _replay_dir(prop.id)
    replayed = 0
    if os.path.isdir(rdir):
        for name in sorted(os.listdir(rdir)):
            if not name.endswith(".json"):
                continue
            path = os.path.join(rdir, name)
            rel = os.path.relpath(path, VERIF_DIR)
            try:
                case, res = run_replay_file(prop, path)
                stats.record(case, res, keep_sample=False)
                replayed += 1
            except Violation as v:
                replayed += 1
                stats.evaluations += 1
                e = known_by_replay.get(rel)
                if e is not None and e.get("clause") not in (None, v.clause):
                    e = None  # fails differently from the recorded finding
                if e is not None:
                    print(f"KNOWN-FINDING: property={prop.id} {e['what']}")
                    stats.known_hits[e["key"]] += 1
                else:
                    print(f"replay {rel}: {v.clause}: {str(v.detail)[:1500]}")
                    violations.append((v.clause, str(v.detail), path))

    broke = None
    try:
        # 2. extra tiers (enumerations, live tiers, schedules).
        for name, fn in prop.extra_tiers:
            st = Stats()
            fn(tier, seed, st)
            stats.merge(st)

        # 3. generated search.
        budget = ns.budget or prop.budgets[tier]
        nshards = ns.shards or prop.shards or min(16, os.cpu_count() or 1)
        if budget > 0:
            custom = getattr(prop, "search", None)
            if custom is not None:
                st = custom(prop, prop_mod, tier, seed, budget, nshards)
            else:
                st = run_search(prop, prop_mod, tier, seed, budget, nshards)
            stats.merge(st)
    except HarnessError as e:
        # the machinery broke down *after* the replay tier had already shown
        # a violation on this tree: report that violation (exit 1) and say
        # what broke; with no violation in hand this stays a harness error
        if not violations:
            raise
        broke = e
        print(f"HARNESS-ERROR (after {len(violations)} violation(s) had been found): {str(e)[-600:]}")

    seen = set()
    for clause, detail, case_json in stats.failures:
        path = _write_failure(prop.id, clause, detail, case_json)
        if path in seen:
            continue
        seen.add(path)
        print(f"violation {clause}: {detail[:1500]}")
        violations.append((clause, detail, path))

    wall = time.time() - t0
    ev = {
        "property_id": prop.id,
        "tier": tier,
        "seed": seed,
        "level": prop.level,
        "coverage": {
            "evaluations": stats.evaluations,
            "generated_cases": stats.cases,
            "distinct_nontrivial": len(stats.nontrivial),
            "rule": prop.rule,
            "samples": stats.samples[:6] or ["<none recorded>"],
            "labels": dict(sorted(stats.labels.items())),
            "replayed_regression_inputs": replayed,
            "excluded_by_known_finding": stats.excluded,
            "known_findings_reproduced": dict(stats.known_hits),
            "calibration": calib,
            "notes": stats.notes,
            "trusted_base": prop.trusted_base,
        },
        "assumptions": prop.assumptions,
        "wall_s": round(wall, 2),
        "violations": len(violations),
    }
    if not ns.no_evidence:
        os.makedirs(os.path.join(VERIF_DIR, "evidence"), exist_ok=True)
        with open(
            os.path.join(VERIF_DIR, "evidence", f"{prop.id}.json"), "w"
        ) as f:
            json.dump(ev, f, indent=1, sort_keys=True, default=repr)
    print(
        f"{prop.id} {tier} seed={seed}: evaluations={stats.evaluations} "
        f"distinct_nontrivial={len(stats.nontrivial)} "
        f"violations={len(violations)} wall={wall:.1f}s"
    )
    top = ", ".join(f"{k}={v}" for k, v in stats.labels.most_common(14))
    print(f"labels: {top}")
    if violations:
        for clause, detail, path in violations:
            print(f"VIOLATION property={prop.id} replay={path}")
        return 1
    return 0
