"""Generation of "ordinary" process states for the fault / oneshot / history
properties, and their installation into a simk.Kernel."""

from hypothesis import strategies as st

from vlib import gen
from vlib import simk

ROOT = "/simroot"

FD_KINDS = ["reg", "reg", "socket-tcp", "socket-unix", "pipe", "chardev", "dir",
            "reg-deleted"]


def proc_state(max_threads=4, max_fds=8, max_maps=5):
    return st.fixed_dictionaries(dict(
        comm=st.one_of(st.sampled_from([b"python3", b"a b", b"x)y", b"gnome-keyring-d",
                                        b"kworker/0:1", b"\xc3\xa9t\xc3\xa9"]), gen.comm()),
        state=st.sampled_from([b"R", b"S", b"D", b"T", b"I"]),
        utime=gen.small_counter(), stime=gen.small_counter(),
        cutime=gen.small_counter(), cstime=gen.small_counter(),
        starttime=st.integers(1, 10**6),
        processor=st.integers(0, 3),
        nthreads=st.integers(1, max_threads),
        fds=st.lists(st.sampled_from(FD_KINDS), max_size=max_fds),
        nmaps=st.integers(0, max_maps),
        uid=st.sampled_from([0, 1000, 65534, 4294967294]),
        tty=st.booleans(),
        cmdline=st.sampled_from([b"", b"/simroot/bin/app\0--flag\0", b"app\0",
                                 b"gnome-keyring-daemon\0--start\0",
                                 b"nginx: worker process"]),
        environ=st.sampled_from([b"", b"PATH=/bin\0HOME=/root\0", b"A=1\0\0junk\0"]),
        exe=st.sampled_from(["/simroot/bin/app", "/simroot/bin/app (deleted)", None]),
        cwd=st.sampled_from(["/", "/simroot/work", None]),
        nice=st.integers(-20, 19),
        ioprio=st.sampled_from([(0, 4), (1, 0), (2, 7), (3, 0)]),
        rollup=st.sampled_from(["auto", "auto", "enoent", "esrch"]),
        nchildren=st.integers(0, 2),
        io_syscr=gen.small_counter(),
    ))


def build_proc(k, pid, s, ppid=1, inode_base=7000):
    """Install process `pid` described by `s` into kernel `k`.  Returns the
    Proc.  Also creates /proc/net files consistent with its socket fds when
    they are not present yet."""
    from props import c11_netconn as c11

    threads = [simk.Thread(pid, s["comm"], s["utime"], s["stime"], s["state"])]
    for i in range(1, s["nthreads"]):
        threads.append(simk.Thread(pid + i, b"worker-%d" % i, i, 2 * i))
    fds = {}
    inet, unix = [], []
    for i, kind in enumerate(s["fds"]):
        fd = i + 3 if i != 5 else 255
        ino = inode_base + i
        if kind == "reg":
            path = f"{ROOT}/data/f{i}"
            k.set_file(path, b"x")
            fds[fd] = simk.FD(path, pos=i * 10, flags=0o100002)
        elif kind == "reg-deleted":
            fds[fd] = simk.FD(f"{ROOT}/data/gone{i} (deleted)", flags=0o100000)
        elif kind == "socket-tcp":
            fds[fd] = simk.FD(f"socket:[{ino}]")
            inet.append(dict(proto="tcp", fam=4, l4=bytes([127, 0, 0, 1]),
                             r4=bytes(4), l6=bytes(16), r6=bytes(16),
                             lport=8000 + i, rport=0, state=10, inode=ino))
        elif kind == "socket-unix":
            fds[fd] = simk.FD(f"socket:[{ino}]")
            unix.append(dict(type=1, path=2, state=1, inode=ino))
        elif kind == "pipe":
            fds[fd] = simk.FD(f"pipe:[{ino}]")
        elif kind == "chardev":
            k.set_file("/dev/null", simk.Dev(0x103))
            fds[fd] = simk.FD("/dev/null", flags=0o100002)
        elif kind == "dir":
            k.mkdir(f"{ROOT}/dir{i}")
            fds[fd] = simk.FD(f"{ROOT}/dir{i}", flags=0o200000)
    maps = []
    addr = 0x400000
    for i in range(s["nmaps"]):
        path = ["", f"{ROOT}/lib/libc.so", f"{ROOT}/lib/libc.so", "[heap]",
                f"{ROOT}/bin/app"][i % 5]
        maps.append(simk.Mapping(
            addr="%08x-%08x" % (addr, addr + 0x1000), perms="r-xp", path=path,
            inode=10 if path.startswith("/") else 0,
            fields=[("Size", 4), ("Rss", 4 + i), ("Pss", 2 + i), ("Shared_Clean", 1),
                    ("Shared_Dirty", 0), ("Private_Clean", i), ("Private_Dirty", 1),
                    ("Referenced", 4), ("Anonymous", 0), ("Swap", i)],
            extra=[b"VmFlags: rd ex mr mw me"]))
        addr += 0x2000
    tty_nr = 0
    if s["tty"]:
        k.mkdir("/dev/pts")
        k.set_file("/dev/pts/3", simk.Dev(0x8803))
        tty_nr = 0x8803
    p = k.spawn(
        pid, comm=s["comm"], state=s["state"], ppid=ppid, utime=s["utime"],
        stime=s["stime"], cutime=s["cutime"], cstime=s["cstime"],
        starttime=s["starttime"], processor=s["processor"], threads=threads,
        fds=fds, maps=maps, uids=(s["uid"],) * 4, gids=(s["uid"],) * 4,
        tty_nr=tty_nr, cmdline=s["cmdline"], environ=s["environ"], exe=s["exe"],
        cwd=s["cwd"], nice=s["nice"], ioprio=tuple(s["ioprio"]), rollup=s["rollup"],
        statm=(100 + s["nmaps"], 50, 10, 5, 0, 20, 0), vctx=7, nvctx=3,
    )
    p.io_counters["syscr"] = s["io_syscr"]
    if s["exe"] and not s["exe"].endswith(" (deleted)"):
        k.set_file(s["exe"], b"\x7fELF")
    k.files.setdefault("/proc/net/tcp", c11.render_inet(inet, 4, "tcp"))
    k.files.setdefault("/proc/net/tcp6", c11.render_inet([], 6, "tcp"))
    k.files.setdefault("/proc/net/udp", c11.render_inet([], 4, "udp"))
    k.files.setdefault("/proc/net/udp6", c11.render_inet([], 6, "udp"))
    k.files.setdefault("/proc/net/unix", c11.render_unix(unix, []))
    k.files.setdefault("/proc/net", simk.DIR)
    k.files.setdefault("/proc/meminfo", (
        b"MemTotal:        8000000 kB\nMemFree:         4000000 kB\n"
        b"MemAvailable:    6000000 kB\nBuffers:          100000 kB\n"
        b"Cached:          1000000 kB\nShmem:             10000 kB\n"
        b"Active:          2000000 kB\nInactive:        1000000 kB\n"
        b"SReclaimable:     100000 kB\nSlab:             200000 kB\n"
        b"SwapTotal:             0 kB\nSwapFree:              0 kB\n"))
    return p


def standard_world(k, s, pid=500, parent_pid=400):
    """init (1), a parent, the target process and its children."""
    k.spawn(1, comm=b"systemd", ppid=0, starttime=1)
    k.spawn(parent_pid, comm=b"bash", ppid=1, starttime=50)
    p = build_proc(k, pid, s, ppid=parent_pid)
    p.starttime = max(p.starttime, 60)
    for i in range(s["nchildren"]):
        k.spawn(pid + 100 + i, comm=b"child", ppid=pid,
                starttime=p.starttime + 10 + i)
    if s["nchildren"]:
        k.spawn(pid + 200, comm=b"grandchild", ppid=pid + 100,
                starttime=p.starttime + 30)
    return p
