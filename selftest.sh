#!/bin/bash
# selftest.sh [ID ...]  - sensitivity harness.
# For every mutants/<ID>/*.patch: apply it to a scratch copy of /repo, run the
# quick check against that copy (VERIF_REPO) and require exit 1.  Seeded
# changes under seeded/<ID>*/patch.diff are run the same way.
# Also requires exit 0 on the unchanged tree for several seeds when --clean.
cd "$(dirname "$0")"
IDS=()
CLEAN=0
for a in "$@"; do
  if [ "$a" = "--clean" ]; then CLEAN=1; else IDS+=("$a"); fi
done
if [ ${#IDS[@]} -eq 0 ]; then IDS=($(ls mutants 2>/dev/null)); fi
fail=0
for id in "${IDS[@]}"; do
  if [ $CLEAN = 1 ]; then
    for seed in 1 2 3; do
      VERIF_SEED=$seed ./check "$id" quick --no-evidence >/tmp/selftest.$$.log 2>&1
      rc=$?
      if [ $rc -ne 0 ]; then echo "NOT-QUIET $id seed=$seed rc=$rc"; tail -5 /tmp/selftest.$$.log; fail=1; else echo "quiet $id seed=$seed"; fi
    done
  fi
  for patch in mutants/$id/*.patch seeded/${id}*/patch.diff; do
    [ -f "$patch" ] || continue
    S=$(mktemp -d /var/tmp/psvmut.XXXXXX)
    rsync -a --exclude .git --exclude '*.so' --exclude build --exclude docs /repo/ "$S/"
    if ! patch -s -p1 -d "$S" < "$patch" >/dev/null 2>&1; then
      echo "PATCH-FAILED $patch"; fail=1; rm -rf "$S"; continue
    fi
    VERIF_REPO="$S" ./check "$id" quick --no-evidence >/tmp/selftest.$$.log 2>&1
    rc=$?
    if [ $rc -eq 1 ] && grep -q "^VIOLATION property=$id" /tmp/selftest.$$.log; then
      echo "caught   $patch"
    else
      echo "MISSED   $patch (rc=$rc)"; tail -3 /tmp/selftest.$$.log; fail=1
    fi
    rm -rf "$S"
  done
done
rm -f /tmp/selftest.$$.log
exit $fail
