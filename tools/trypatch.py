#!/usr/bin/env python3
"""tools/trypatch.py <ID> <patch> [shards] [seed]: run the quick check of <ID> against a
scratch copy of /repo with <patch> applied (never touches /repo).  Prints the
verdict and the first violation line."""
import os, subprocess, sys
sys.path.insert(0, os.path.dirname(os.path.abspath(__file__)))
import selftest_par as sp

pid, patch = sys.argv[1], os.path.abspath(sys.argv[2])
shards = int(sys.argv[3]) if len(sys.argv) > 3 else 8
base = "/var/tmp/trypatch.base/repo"
if not os.path.isdir(base):
    os.makedirs(os.path.dirname(base), exist_ok=True)
    subprocess.check_call(["rsync", "-a", "--exclude", ".git", "--exclude", "build", "--exclude", "docs",
                           "--exclude", "__pycache__", "--exclude", "*.so", sp.REPO + "/", base + "/"])
    subprocess.check_call([sp.PY, "setup.py", "build_ext", "-i"], cwd=base, stdout=subprocess.DEVNULL,
                          stderr=subprocess.DEVNULL)
if len(sys.argv) > 4:
    os.environ["TRY_SEED"] = sys.argv[4]
print(*sp.one(base, pid, os.path.relpath(patch, sp.VERIF), shards))
