#!/usr/bin/env python3
"""Regenerate /verif/MANIFEST.json from the table below (kept in one place so
the manifest stays valid while checks are added)."""
import json
import os

HERE = os.path.dirname(os.path.dirname(os.path.abspath(__file__)))

CHECKS = {
    "C01": dict(
        level="exploration",
        technique="property-based testing (Hypothesis) of op-list histories over a simulated process table with ghost incarnation ids; delivery-log oracle; live differential on real children",
        text=("Generated histories of spawn/exit/reap/PID recycling (live or zombie, repeated), object creation (incl. the Popen path), interleaved queries and every signal / setter "
              "form are interpreted against the real psutil code over a simulated kernel that logs each delivered signal and setting with the incarnation that received it; after each "
              "action: a recycled or gone object must raise NoSuchProcess with nothing delivered, a live one gets exactly one delivery with exactly the requested value, and no kill() "
              "with pid <= 0 ever occurs. A live tier kills real children with 16 signals. Search, not proof."
              " Histories also contain Process.wait(), open oneshot() blocks and the caller continuing as a forked worker on a recycled PID."
              " Actions are also attempted while one OS access about the PID fails with EMFILE/ENFILE/ENOMEM/EIO (nothing may reach a new owner)."
              " Process names may contain parentheses and blanks."),
        note=("Trusted: vlib/simk.py syscall model and delivery log, vlib/history.py. Reuse within one clock tick is documented as indistinguishable and not generated; what cpu_affinity([]) selects is left to C18."),
        design="DESIGN.md section 3 C01",
    ),
    "C02": dict(
        level="exploration",
        technique="property-based testing (Hypothesis) of op-list histories incl. system clock steps over a simulated process table; all-pairs ==/hash/is_running invariant against ghost incarnation ids",
        text=("Generated histories of spawn/exit/reap/PID recycling, object creation at any point, system clock steps (the kernel's btime changes), boot_time(), create_time(), "
              "is_running(), process_iter(), str() and other calls are interpreted against the real code; after every step every pair of objects is compared (==, !=, hash) with "
              "the ghost incarnation ids, hashes must never change, is_running() must equal 'own incarnation still in the table' and never come back to True. Search, not proof."
              " Histories also contain Process.wait(), open oneshot() blocks and the caller continuing as a forked worker on a recycled PID."
              " Objects include psutil.Popen instances; is_running() is also asked while one access fails transiently."
              " Process names may contain parentheses and blanks; a live process may rename itself."),
        note=("Trusted: vlib/simk.py, vlib/history.py. Reuse within one clock tick not generated; objects only for listed PIDs."),
        design="DESIGN.md section 3 C02",
    ),
    "C03": dict(
        level="fault_enumeration",
        technique="fault-point enumeration over Hypothesis-generated process states: vanish / zombify / deny injected at every OS access index of every query method on a simulated procfs",
        text=("For each generated process state every public query form (42, plus process_iter with attrs) is run fault-free to count its OS accesses, then exhaustively re-run with the "
              "process removed (atomically, and in the issue-2418 half-gone form) or zombified before each access and with each access pertaining to the process refused once; outcomes "
              "must be a well-formed value or the psutil exception the fault can explain, carrying the pid; after a vanish all queries are repeated on the same object; (deny, vanish) "
              "pairs are sampled (quick) - single faults are exhaustive per state, states are sampled."
              " For children()/children(recursive=True) each child and grandchild is also removed before every access (the live object must still answer)."),
        note=("Trusted: vlib/simk.py procfs error model (ENOENT at open/readlink/listdir/stat, ESRCH at read, zombie behaviour re-probed on a live zombie every run) and its access log. "
              "Denials only at accesses pertaining to the process; a lone ENOENT on a live process is not injected."),
        design="DESIGN.md section 3 C03",
    ),
    "C04": dict(
        level="exploration",
        technique="property-based testing (Hypothesis) of op-list histories: process-table changes interleaved with lazily consumed / abandoned / closed iterators, cache_clear and is_running -> reference model of the cache statement",
        text=("Generated histories interleave spawn/exit/reap/recycle/thread events with iterators that are created, advanced a few items, finished, closed or garbage-collected at any later "
              "point, complete passes with several attrs choices, cache_clear(), is_running() on cached objects, and pid_exists()/pids() over listed PIDs, TIDs, absent, negative and huge "
              "numbers. A reference model checks order, membership, completeness, object identity across clean passes, fresh objects after absence / clear / reuse detection, info keys and "
              "convergence. Two recorded known findings are excluded by construction and re-checked from their replay files. Search, not proof; no thread-level schedules."
              " Status files can be made unreadable (hidepid) so that pid_exists() takes its fallback path."
              " wait() may be called on a cached object whose process ended before its PID is taken again."),
        note=("Trusted: vlib/simk.py, vlib/history.py. A listed PID vanishing before its turn may be yielded or skipped; identity asserted only between passes during which no other iterator advanced."),
        design="DESIGN.md section 3 C04",
    ),
    "C05": dict(
        level="exploration",
        technique="property-based testing (Hypothesis) + exhaustive enumeration of small parent maps: generated process tables -> reference graph model; termination as an OS-access bound",
        text=("Generated process tables (arbitrary parent maps incl. self-loops, cycles, unlisted parents; start-time orders incl. ties; zombies), the caller's PID recycled after object creation "
              "and other processes vanishing at generated accesses during the walk are run through the real children/parent/parents over a simulated procfs and compared with a reference "
              "graph model; all parent maps x start orders x callers for n<=3 (quick) / n<=4 (thorough) are enumerated exhaustively. Search, not proof, beyond those sizes."
              " The same object may have answered ppid()/parent() before and the caller may get another parent before the questions (re-parenting)."
              " PID 0 may be a listed process (and a parent)."),
        note=("Trusted: vlib/simk.py process table. Root (lowest listed PID) may answer None; parents() only on acyclic chains; paths through an excluded older node accepted either way."),
        design="DESIGN.md section 3 C05",
    ),
    "C06": dict(
        level="exploration",
        technique="property-based testing (Hypothesis): generated kernel records -> model round-trip oracle over a simulated procfs",
        text=("Generated stat/status/task records (hostile names, counters to 2^64-1, old-kernel layouts, 1..n threads) "
              "are served to the real psutil code through an interposed file layer; each listed method must return the model value. "
              "Search, not proof: bounded by the case counts in evidence."
              " A third of the cases run right after another generated case in the same interpreter with only psutil's documented cross-call state reset (answers may not depend on what was observed before). A quarter of the cases run with psutil.PROCFS_PATH pointing elsewhere (the literal /proc then does not exist)."
              " The oneshot() block may be left by the caller's own exception before the process changes and is asked again."),
        note=("Trusted: vlib/simk.py renderers (calibrated every run against live /proc/self/{stat,status} and live threads renamed "
              "with prctl), Hypothesis. Names are NUL-free and <= 15 bytes; kernels other than the sandbox's are modelled from proc(5)."),
        design="DESIGN.md section 3 C06",
    ),
    "C07": dict(
        level="exploration",
        technique="property-based testing (Hypothesis): generated /proc/stat snapshot programs from 1-3 threads under virtual time -> exact-rational reference",
        text=("Programs of snapshot changes (zero, sub-tick, huge and negative deltas; 7-10 fields; non-contiguous CPUs) and calls in every blocking/non-blocking/percpu form from "
              "1-3 persistent threads are run against the real code with a simulated /proc/stat and virtual sleep; every result is compared with an exact-rational model that "
              "tracks each thread's previous sample per API family. Process.cpu_percent is checked under a virtual monotonic clock. Search, not proof; thread interleaving is at call granularity."
              " Between two Process.cpu_percent() samples the children's and block-I/O tick counters grow as well."),
        note=("Trusted: vlib/simk.py (file layer, virtual time). Counters <= 2^40 ticks; CPU set constant within a program; a thread's first non-blocking call only range-checked."),
        design="DESIGN.md section 3 C07",
    ),
    "C08": dict(
        level="exploration",
        technique="property-based testing (Hypothesis): generated meminfo/vmstat/zoneinfo -> independent integer re-statement of the documented formulas",
        text=("Generated /proc/meminfo, /proc/vmstat and /proc/zoneinfo contents (any subset of optional fields, container-distorted magnitudes, zero totals) "
              "are parsed by the real code; every field, the percent rounding, the clamps, the watermark fallback and the warning text are compared with an independent model. "
              "Search, not proof."
              " A third of the cases run right after another generated case in the same interpreter with only psutil's documented cross-call state reset (answers may not depend on what was observed before). A quarter of the cases run with psutil.PROCFS_PATH pointing elsewhere (the literal /proc then does not exist)."),
        note=("Trusted: vlib/simk.py file layer, the model's reading of kernel commit 34e431b0ae; meminfo renderer calibrated byte-exactly against the live file. "
              "Values <= 2^50 kB; no blank meminfo lines."),
        design="DESIGN.md section 3 C08",
    ),
    "C09": dict(
        level="exploration",
        technique="property-based testing (Hypothesis): generated net/dev, diskstats, sysfs block tree and statvfs tuples -> column-table oracle from proc(5)/iostats.txt",
        text=("Generated device tables in every supported line layout are decoded by the real code and compared per device and in total (whole disks only) with column tables "
              "written from the kernel documentation; disk_usage arithmetic is checked on generated statvfs tuples. One recorded known finding (Linux 2.4 15-field layout) is "
              "excluded from the search and re-checked from its replay file. Search, not proof."
              " A third of the cases run right after another generated case in the same interpreter with only psutil's documented cross-call state reset (answers may not depend on what was observed before). A quarter of the cases run with psutil.PROCFS_PATH pointing elsewhere (the literal /proc then does not exist)."),
        note=("Trusted: vlib/simk.py file layer, proc(5)/iostats.txt column meanings. statvfs tuples satisfy bavail <= bfree <= blocks; unique device names."),
        design="DESIGN.md section 3 C09",
    ),
    "C10": dict(
        level="exploration",
        technique="property-based testing (Hypothesis): generated counter-snapshot / call / cache_clear histories -> reference model of the wrap-offset rule; enumerated two-thread schedules under a sys.settrace scheduler",
        text=("Histories of raw counter changes (devices appear, vanish, reappear; fields grow, stay, drop), public calls of both functions in every per-device/total and nowrap form "
              "and cache_clear() calls run against the real parsers and wrap cache over simulated /proc files; every returned value is compared with a reference model of the statement "
              "and checked for monotonicity. One recorded known finding (perdisk alternation) is excluded by construction. A second tier ENUMERATES every two-thread schedule "
              "of the form (thread A runs k source lines, raw counters grow, thread B completes, A completes) with the vlib.detsched line-level scheduler and requires values that existed "
              "during the calls and no inflation afterwards. Search, not proof, outside that schedule family."
              " All two-thread line-level schedules with one pre-emption are enumerated for both functions."
              " Single-device stories (fields going backwards in successive snapshots, device gone and back) are generated as units."),
        note=("Trusted: vlib/simk.py file layer, c09 renderers. Presence of a device is observed at nowrap=True calls that return it."),
        design="DESIGN.md section 3 C10",
    ),
    "C11": dict(
        level="exploration",
        technique="property-based testing (Hypothesis): generated /proc/net socket tables and holder processes -> set comparison with a model using inet_ntop on network-order bytes",
        text=("Generated TCP/UDP/UNIX socket tables (arbitrary and special addresses, port 0, all TCP states, UNIX paths with spaces and abstract names, odd short lines) with 0-4 holders "
              "per socket across readable and unreadable processes are parsed by the real code for one of the 11 kinds per case, system-wide and per-process; rows are compared as sets "
              "with the model; invalid kinds must raise ValueError. Search, not proof."
              " A third of the cases run right after another generated case in the same interpreter with only psutil's documented cross-call state reset (answers may not depend on what was observed before). A quarter of the cases run with psutil.PROCFS_PATH pointing elsewhere (the literal /proc then does not exist)."
              " inet and UNIX sockets not attached to a file (inode 0) occur in both kinds of table."),
        note=("Trusted: vlib/simk.py, the /proc/net renderers (calibrated each run against live loopback IPv4/IPv6/UNIX sockets). Socket tuples unique per table; any visible holder accepted for inet sockets."),
        design="DESIGN.md section 3 C11",
    ),
    "C12": dict(
        level="exploration",
        technique="property-based testing (Hypothesis): generated argv/title/environ blobs, link targets and (comm, argv[0]) pairs -> inverse-of-renderer oracle over a simulated procfs",
        text=("Generated cmdline blobs (argv with empty args/spaces/non-UTF-8, rewritten titles), environment blocks, exe/cwd link targets (NUL garbage, ' (deleted)', withheld), "
              "exe() fallback candidates and 15-byte names (multi-byte, cut inside a character) are served to the real code; each public method is compared with the inverse of the "
              "kernel's rendering; exe() caching is checked by counting OS accesses of the second call. Search, not proof."
              " A third of the cases run right after another generated case in the same interpreter with only psutil's documented cross-call state reset (answers may not depend on what was observed before). A quarter of the cases run with psutil.PROCFS_PATH pointing elsewhere (the literal /proc then does not exist)."),
        note=("Trusted: vlib/simk.py process files and stat/access model. A single NUL-terminated argument containing spaces is accepted either way (documented ambiguity); "
              "environment entries starting with '=' are crash-freedom only."),
        design="DESIGN.md section 3 C12",
    ),
    "C13": dict(
        level="exploration",
        technique="property-based testing (Hypothesis): generated statm / smaps / smaps_rollup records -> sums over the model mappings, roll-up vs per-mapping differential",
        text=("Generated statm tuples and smaps listings (repeated paths, paths with spaces/colons/' (deleted)', optional and non-kB lines, values to 2^40 kB, old-kernel line sets) with the "
              "roll-up file present or failing are parsed by the real code; memory_info, memory_full_info (both sources), memory_maps (both forms, conservation of sums) and memory_percent "
              "are compared with the model. Search, not proof."
              " A third of the cases run right after another generated case in the same interpreter with only psutil's documented cross-call state reset (answers may not depend on what was observed before). A quarter of the cases run with psutil.PROCFS_PATH pointing elsewhere (the literal /proc then does not exist)."
              " MemTotal may change before memory_percent() is asked again (after virtual_memory() reported the new total)."),
        note=("Trusted: vlib/simk.py smaps/statm renderers, calibrated byte-exactly against the live /proc/self/smaps each run. The roll-up holds exact sums; all mappings of a process print the same set of lines."),
        design="DESIGN.md section 3 C13",
    ),
    "C14": dict(
        level="exploration",
        technique="property-based testing (Hypothesis): generated descriptor tables, fd-close faults at generated access indices and /proc/pid/io contents -> model table; live differential vs lseek/F_GETFL",
        text=("Generated fd tables of every target kind with offsets to 2^63 and access mode 0-3 x flag subsets, descriptors closing just before a generated OS access of the scan, and io files "
              "with blank/malformed/unknown lines are scanned by the real code over a simulated procfs; open_files/num_fds/io_counters are compared with the model. A live tier opens real "
              "descriptors with 36 flag combinations. Search, not proof."
              " A third of the cases run right after another generated case in the same interpreter with only psutil's documented cross-call state reset (answers may not depend on what was observed before). A quarter of the cases run with psutil.PROCFS_PATH pointing elsewhere (the literal /proc then does not exist)."),
        note=("Trusted: vlib/simk.py fd/fdinfo/io files and fault plan; for access mode 3 any mode string is accepted; a descriptor closing mid-scan may or may not be listed."),
        design="DESIGN.md section 3 C14",
    ),
    "C15": dict(
        level="exploration",
        technique="property-based testing (Hypothesis) under a harness-owned virtual clock: generated exit-instant placements, statuses, timeouts and EINTR injections -> oracle over the log of clock readings, sleeps and polls; live tier on real children",
        text=("wait()/wait_procs() run against a simulated waitpid/kill(0)/timer/sleep; the exit instant is generated on a grid around the deterministic polling instants and the deadline, "
              "for child / non-child / never-existed PIDs, exit codes 0-255 and signals 1-64, all timeout classes, EINTR on any subset of waitpid calls and repeated calls; the oracle "
              "checks status decoding, never-early return, caching without syscalls, TimeoutExpired fields and timing (>= deadline, <= deadline + 40 ms, process alive at the last completed "
              "poll), the back-off sequence, timeout=0 without sleeps, and wait_procs partition / returncode / callback / elapsed rules. Live tier: values on 9 real children. Search, not proof."
              " Sleeps may last 50-300 % longer than asked (the deadline is a clock time; lateness bound = one such poll). Non-children may be invisible in procfs (hidepid=2) while kill(pid, 0) still finds them."),
        note=("Trusted: vlib/simk.py waitpid/kill/virtual-time model (step-bounded, no wall clock). Real scheduler latency is not measured; a poll interrupted by EINTR is treated as carrying no information."),
        design="DESIGN.md section 3 C15",
    ),
    "C16": dict(
        level="exploration",
        technique="property-based testing (Hypothesis): (a) op-list histories with a differential oracle (oneshot vs plain call on a fresh object at the first-read state), (b) generated thread schedules executed by a sys.settrace scheduler at source-line granularity",
        text=("(a) Sequential histories of enter / nested enter / exit / exception / getter calls / process mutations / as_dict forms / deny / zombify / vanish on one object: every value must "
              "equal what a plain call on a fresh object returns for the process state its source had when first read in the block; stat/status/smaps are opened at most once per clean block; "
              "caches must be gone after the block; as_dict keys, ad_value placement, NoSuchProcess propagation and validation-before-access are checked. (b) Schedules: a oneshot block or "
              "as_dict() in one thread, plain calls from 1-2 other threads and an optional kernel mutation, pre-empted at generated source lines of psutil/*.py: no spurious exception, every "
              "value valid for some version between min(block start, call start) and call end. Search, not proof; bounded pre-emptions."
              " The name as_dict() must refuse is drawn from made-up names, private names and the public non-getter attributes (terminate, kill, wait, children, ...)."),
        note=("Trusted: vlib/simk.py, vlib/detsched.py. Pre-emption inside C calls is out of reach; create_time()/exe() memoised for life and not compared; inside a block, calls mixing a cached "
              "source with a different error state (zombie/denied/gone) are not compared. The 'first read' moment is observed on psutil's per-object cache."),
        design="DESIGN.md section 3 C16",
    ),
    "C17": dict(
        level="exploration",
        technique="sanitizer-instrumented fuzzing with Hypothesis: type-directed argument generation for every extension entry point plus format-aware utmp / mounts record generation with independent decoders, run under ASan+UBSan in journaled child processes",
        text=("The C extension is rebuilt with AddressSanitizer and UBSan (no recovery) and driven in child processes that journal each case before running it. Generated: arguments of any size, "
              "sign and type (incl. hostile sequences) to all entry points and the public wrappers; utmp files with full-width unterminated fields, every record type, partial records; mounts and "
              "filesystems files with escapes, comments, short lines, hundreds of entries and 70 kB names; the live interface list. Oracles: no sanitizer report / abnormal exit; users() equals an "
              "independent struct decoding; disk_partitions() equals an independent getmntent(3) model and the documented filter; interfaces agree with /sys/class/net and /proc/net/if_inet6. Search, not proof."
              " Mount lines of 0.6-1.9 kB are compared with the model, longer ones are crash-only."),
        note=("Trusted: gcc 12 sanitizer runtimes, the struct decoder and getmntent model in props/c17_cext.py. Coverage-guided byte fuzzing not used (scalar entry points, format-aware records instead); "
              "lines over 2000 bytes are crash-only; MAC formatting sees only the sandbox NICs."),
        design="DESIGN.md section 3 C17",
    ),
    "C18": dict(
        level="exploration",
        technique="property-based testing (Hypothesis): generated setter sequences applied to a live sacrificial child with a differential oracle against independent kernel reads, plus a simulated tier logging what reaches the extension",
        text=("Generated sequences of nice / ionice / cpu_affinity / rlimit requests (full valid grids and the invalid values around them) are applied through psutil to a real child; before "
              "and after every request the kernel is read through os.getpriority, a raw ioprio_get syscall, os.sched_getaffinity and resource.prlimit for the child, a bystander and the "
              "harness: get == kernel, successful set == exactly the request, invalid requests raise ValueError and change nothing, nobody else changes, cpu_affinity([]) yields the "
              "all-ones mask. A simulated tier repeats the requests over 7 Cpus_allowed_list shapes with a cpuset model. Search, not proof."
              " The simulated tier varies the CPU count (1-128), hot-plugs CPUs between requests and precedes sequences with a cpu_affinity([]) made with fewer CPUs online. Limits include the largest finite values (2^63-1, 2^63-2)."),
        note=("Trusted: the os/resource/ctypes read paths, vlib/simk.py. Runs as root in the sandbox; limits that would kill the child are offset to large values; a child that dies makes the case inconclusive; "
              "mixed existing/non-existing CPU lists are accepted either way."),
        design="DESIGN.md section 3 C18",
    ),
    "C19": dict(
        level="exploration",
        technique="property-based testing (Hypothesis): generated /sys and /proc hardware trees -> statement arithmetic on the model tree",
        text=("Generated hwmon/thermal/power_supply/cpufreq/cpuinfo/stat/topology trees (both directory nestings, any subset of optional files, unreadable and non-numeric files, "
              "zero thresholds, alternative battery file families, AC adapters, offline CPUs, sysconf failing) are served through an interposed os/glob/open layer to the real code, "
              "including the import-time sysfs variant of cpu_freq loaded as a second module copy; results are compared with the statement's arithmetic. Search, not proof."
              " A third of the cases run right after another generated case in the same interpreter with only psutil's documented cross-call state reset (answers may not depend on what was observed before). A quarter of the cases run with psutil.PROCFS_PATH pointing elsewhere (the literal /proc then does not exist)."),
        note=("Trusted: vlib/simk.py file/glob layer. The sandbox has no hwmon/thermal/battery/cpufreq, so there is no live tier; chip name files always present; fan inputs numeric; "
              "PYTHONHASHSEED fixed to 0 (set iteration order of trip points)."),
        design="DESIGN.md section 3 C19",
    ),
    "C20": dict(
        level="exploration",
        technique="property-based testing (Hypothesis) over seven impersonated platforms with generated stub native layers: fault plans (errno x native-call index x zombie) and distinct-slot records against hand-derived slot tables",
        text=("Each non-Linux platform module is imported in its own process under a forged sys.platform / os.name with stub native modules. Generated fault plans make the n-th native call of "
              "every public Process method fail with each errno (Windows error code), with the PID still listed as a zombie or not, a cached name or not, PID 0 listed or not: the exception must be "
              "NoSuchProcess / ZombieProcess / AccessDenied with pid and cached name, or the original error unchanged, per the per-platform contract. Records whose every slot holds a distinct "
              "value must surface in the documented named tuple fields according to slot tables hand-derived from the native builders. Front-end post-processing (MAC padding, Windows broadcast) "
              "and documented name availability are checked per platform. Search, not proof."
              " Method x errno x call index is also enumerated per platform; two-step faults: procfs items vanishing then a different stat() error (SunOS/AIX), a Windows ERROR_PARTIAL_COPY retry failing with another error. Generators returned by a platform method are consumed inside the guarded call."),
        note=("Trusted: the stub native modules and slot tables in props/c20_platforms.py. The native C/Obj-C code of other platforms is not compiled or executed. A failure swallowed by a "
              "documented fall-back is counted, not judged; Windows ppid() (system-wide native call only) is crash-freedom only."),
        design="DESIGN.md section 3 C20",
    ),
}

ALL = ["C%02d" % i for i in range(1, 21)]


def main():
    checks = []
    for pid in ALL:
        c = CHECKS.get(pid)
        if not c:
            continue
        checks.append({
            "property_id": pid,
            "quick_cmd": f"./check {pid} quick",
            "thorough_cmd": f"./check {pid} thorough",
            "evidence_file": f"/verif/evidence/{pid}.json",
            "replay_cmd_template": f"./check {pid} quick --replay {{path}}",
            "engine": "psv",
            "level_claimed": {"category": c["level"], "text": c["text"], "design_ref": c["design"]},
            "level_note": c["note"],
            "technique": c["technique"],
        })
    na = [{"property_id": p, "reason": "check not built yet in this round (planned: DESIGN.md section 7); nothing is claimed for it"}
          for p in ALL if p not in CHECKS]
    man = {
        "version": 1,
        "setup_cmd": "/venv/bin/python -c 'import hypothesis' 2>/dev/null || /venv/bin/pip install --no-index --find-links /opt/veriftools/wheels hypothesis",
        "hooks": {
            "guard": "PSUTIL_VERIF",
            "enable": "no repository hooks: checks copy /repo's working tree to a scratch dir, build it with setup.py build_ext -i and interpose module-level names from outside",
            "baseline_off_cmd": "cd /repo && /venv/bin/python -m pytest -ra -q -p no:cacheprovider --timeout=900 --continue-on-collection-errors",
            "source_commits": [],
            "add_only": True,
        },
        "engines": [{
            "name": "psv",
            "path": "/verif/check",
            "serves_properties": sorted(CHECKS),
            "kind_free_text": "property-based testing / fuzzing harness: Hypothesis generators + simulated kernel (vlib/simk.py) + explicit oracles; sharded over 16 processes",
        }],
        "checks": checks,
        "notes": "Entry point: ./check <ID> [quick|thorough] [--replay FILE]. VERIF_SEED selects the Hypothesis seed; VERIF_REPO overrides the tree under test (default /repo). Known findings: known_findings.json.",
        "not_applicable": na,
    }
    with open(os.path.join(HERE, "MANIFEST.json"), "w") as f:
        json.dump(man, f, indent=1)
        f.write("\n")


if __name__ == "__main__":
    main()
