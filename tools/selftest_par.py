#!/usr/bin/env python3
"""tools/selftest_par.py [--jobs N] [ID ...]
Parallel form of selftest.sh: every mutants/<ID>/*.patch and every
seeded/<ID>*/patch.diff is applied to a scratch copy of /repo (C changes are
rebuilt) and the quick check of <ID> must exit 1 with a VIOLATION line.
Scratch copies live under /var/tmp/selftest.* and are removed.

Changes the checks are NOT expected to flag (see DESIGN.md 8.5) are listed in
ACCEPTED: they must keep exiting 0."""
import argparse
import glob
import os
import shutil
import subprocess
import sys
import tempfile
from concurrent.futures import ThreadPoolExecutor, as_completed

VERIF = os.path.dirname(os.path.dirname(os.path.abspath(__file__)))
REPO = os.environ.get("VERIF_REPO", "/repo")
PY = "/venv/bin/python"
ACCEPTED = {"seeded/C05-r5/patch.diff", "seeded/C05-r7/patch.diff"}


def module_of(pid):
    for nm in os.listdir(os.path.join(VERIF, "props")):
        if nm.lower().startswith(pid.lower() + "_") and nm.endswith(".py"):
            return "props." + nm[:-3]
    raise SystemExit("no module for " + pid)


def one(base, pid, patch, shards):
    d = tempfile.mkdtemp(prefix="selftest.", dir="/var/tmp")
    try:
        tree = os.path.join(d, "repo")
        subprocess.check_call(["cp", "-r", base, tree])
        r = subprocess.run(["patch", "-s", "-p1", "-d", tree], stdin=open(os.path.join(VERIF, patch)),
                           capture_output=True, text=True)
        if r.returncode != 0:
            return patch, "PATCH-FAILED", r.stdout[-200:]
        txt = open(os.path.join(VERIF, patch)).read()
        if ".c\n" in txt or ".c\t" in txt or ".h\n" in txt:
            b = subprocess.run([PY, "setup.py", "build_ext", "-i"], cwd=tree, capture_output=True, text=True)
            if b.returncode != 0:
                return patch, "BUILD-FAILED", b.stderr[-300:]
        env = dict(os.environ, VERIF_SCRATCH=d, VERIF_DIR=VERIF, VERIF_TIER="quick", VERIF_SEED=os.environ.get("TRY_SEED", "1"),
                   VERIF_REPO_COPY=tree, PYTHONPATH=tree + ":" + VERIF, PYTHONHASHSEED="0",
                   PYTHONDONTWRITEBYTECODE="1")
        try:
            r = subprocess.run([PY, "-m", module_of(pid), "--no-evidence", "--shards", str(shards)], cwd=VERIF,
                               env=env, capture_output=True, text=True, timeout=1800)
        except subprocess.TimeoutExpired:
            return patch, "TIMEOUT", ""
        viol = any(ln.startswith(f"VIOLATION property={pid}") for ln in r.stdout.split("\n"))
        first = next((ln for ln in r.stdout.split("\n") if ln.startswith("violation") or ln.startswith("replay ")), "")
        if r.returncode == 1 and viol:
            return patch, "caught", first[:140]
        return patch, f"MISSED(rc={r.returncode})", (r.stdout + r.stderr)[-300:] if r.returncode == 2 else ""
    finally:
        shutil.rmtree(d, ignore_errors=True)


def main():
    ap = argparse.ArgumentParser()
    ap.add_argument("ids", nargs="*")
    ap.add_argument("--jobs", type=int, default=4)
    ap.add_argument("--shards", type=int, default=4)
    a = ap.parse_args()
    ids = a.ids or sorted(os.listdir(os.path.join(VERIF, "mutants")))
    base_dir = tempfile.mkdtemp(prefix="selftest.base.", dir="/var/tmp")
    base = os.path.join(base_dir, "repo")
    subprocess.check_call(["rsync", "-a", "--exclude", ".git", "--exclude", "build", "--exclude", "docs",
                           "--exclude", "__pycache__", "--exclude", "*.so", REPO + "/", base + "/"])
    subprocess.check_call([PY, "setup.py", "build_ext", "-i"], cwd=base, stdout=subprocess.DEVNULL,
                          stderr=subprocess.DEVNULL)
    jobs = []
    for pid in ids:
        for patch in sorted(glob.glob(os.path.join(VERIF, "mutants", pid, "*.patch"))
                            + glob.glob(os.path.join(VERIF, "seeded", pid + "*", "patch.diff"))):
            jobs.append((pid, os.path.relpath(patch, VERIF)))
    bad = 0
    try:
        with ThreadPoolExecutor(a.jobs) as ex:
            futs = [ex.submit(one, base, pid, patch, a.shards) for pid, patch in jobs]
            for fu in as_completed(futs):
                patch, verdict, note = fu.result()
                if patch in ACCEPTED:
                    ok = verdict.startswith("MISSED(rc=0")
                    print(f"{'accepted' if ok else 'UNEXPECTED ' + verdict:12s} {patch}  (not expected to be flagged)",
                          flush=True)
                    bad += 0 if ok else 1
                    continue
                print(f"{verdict:12s} {patch}  {note}", flush=True)
                if verdict != "caught":
                    bad += 1
    finally:
        shutil.rmtree(base_dir, ignore_errors=True)
    print(f"done: {len(jobs)} changes, {bad} not as expected")
    sys.exit(1 if bad else 0)


if __name__ == "__main__":
    main()
