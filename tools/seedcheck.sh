#!/bin/bash
# tools/seedcheck.sh <ID> [more check IDs...]
# Confirms an independently written breaking change (/tmp/seed/<ID>/_out) and
# runs the registered quick check(s) against it:
#  1. the patch applies to /repo's HEAD,
#  2. in a scratch copy WITH the patch: demo exits non-zero, the main test files still pass,
#  3. in a scratch copy WITHOUT the patch: demo exits 0,
#  4. git -C /repo apply; ./check <ID> quick; git -C /repo checkout -- .
# Stores patch.diff, demo.py, meta.json under /verif/seeded/<ID>/.
cd "$(dirname "$0")/.."
ID=$1; shift
EXTRA="$@"
SUF=${ROUND:+$ROUND}          # ROUND=2 -> /tmp/seed/<ID>/_out2 and seeded/<ID>-r2
SRC=/tmp/seed/$ID/_out$SUF
DST=seeded/$ID${ROUND:+-r$ROUND}
[ -f $SRC/patch.diff ] || { echo "no patch for $ID"; exit 2; }
git -C /repo apply --check $SRC/patch.diff || { echo "PATCH DOES NOT APPLY to /repo HEAD"; exit 2; }
S=$(mktemp -d /var/tmp/seedchk.XXXXXX)
if [ -f $SRC/pre.env ]; then
  # demo / test results computed earlier by PRE_ONLY=1 (may run in parallel for many IDs)
  . $SRC/pre.env
else
rsync -a --exclude .git --exclude '*.so' --exclude build --exclude docs --exclude _out /repo/ $S/clean/
cp -r $S/clean $S/mut
patch -s -p1 -d $S/mut < $SRC/patch.diff || { echo "patch(1) failed"; rm -rf $S; exit 2; }
for d in clean mut; do (cd $S/$d && /venv/bin/python setup.py build_ext -i >/dev/null 2>&1); done
(cd $S/mut && PYTHONPATH=$S/mut timeout 600 /venv/bin/python $SRC/demo.py >$S/demo_mut.log 2>&1); DM=$?
(cd $S/clean && PYTHONPATH=$S/clean timeout 600 /venv/bin/python $SRC/demo.py >$S/demo_clean.log 2>&1); DC=$?
(cd $S/mut && PYTHONPATH=$S/mut timeout 1200 /venv/bin/python -m pytest -q -p no:cacheprovider psutil/tests/test_process.py psutil/tests/test_linux.py psutil/tests/test_system.py psutil/tests/test_misc.py psutil/tests/test_posix.py psutil/tests/test_contracts.py >$S/tests.log 2>&1)
TESTS=$(tail -1 $S/tests.log)
FAILED=$(grep "^FAILED" $S/tests.log | grep -v "test_users" | head -5)
fi
if [ -n "$PRE_ONLY" ]; then
  printf 'DM=%q\nDC=%q\nTESTS=%q\nFAILED=%q\n' "$DM" "$DC" "$TESTS" "$FAILED" > $SRC/pre.env
  echo "$ID pre: demo with change: exit $DM ; without: exit $DC ; tests: $TESTS $FAILED"
  rm -rf $S; exit 0
fi
echo "demo with change: exit $DM ; without: exit $DC"
echo "tests with change: $TESTS"
[ -n "$FAILED" ] && echo "UNEXPECTED TEST FAILURES: $FAILED"
RES=""
if [ -n "$SCRATCH_CHECK" ]; then
  # /repo must stay untouched (e.g. a thorough sweep is rebuilding from it):
  # the quick check runs against a scratch copy of /repo with the patch applied
  for C in $ID $EXTRA; do
    OUT=$(python3 tools/trypatch.py $C $SRC/patch.diff ${SHARDS:-8})
    echo "check $C (scratch copy): $(echo "$OUT" | cut -c1-400)"
    case "$OUT" in *" caught "*) RES="$RES $C:rc=1";; *) RES="$RES $C:rc=0";; esac
  done
else
git -C /repo apply $SRC/patch.diff
for C in $ID $EXTRA; do
  ./check $C quick --no-evidence > $S/check_$C.log 2>&1; RC=$?
  V=$(grep -c "^VIOLATION property=$C" $S/check_$C.log)
  echo "check $C: rc=$RC violation_lines=$V"
  grep "^violation" $S/check_$C.log | head -2 | cut -c1-400
  RES="$RES $C:rc=$RC"
done
git -C /repo checkout -- .
git -C /repo status --short | grep -v "^??" | head -3
fi
mkdir -p $DST
cp $SRC/patch.diff $DST/patch.diff
cp $SRC/demo.py $DST/demo.py
python3 - "$ID" "$DM" "$DC" "$TESTS" "$RES" "$FAILED" "$SRC" "$DST" <<'PY'
import json,sys
ID,DM,DC,TESTS,RES,FAILED,SRC,DST=sys.argv[1:9]
m=json.load(open(f'{SRC}/meta.json'))
m['confirmed_by_harness_author']={
  'demo_exit_with_change':int(DM),'demo_exit_without_change':int(DC),
  'tests_with_change':TESTS,'unexpected_test_failures':FAILED,
  'checks_run':RES.strip(),
  'procedure':'scratch copies of /repo HEAD with/without patch.diff: demo.py and the six main test files; then '+('the quick check against a scratch copy of /repo with the patch applied (tools/trypatch.py)' if __import__('os').environ.get('SCRATCH_CHECK') else 'git -C /repo apply, ./check <ID> quick, git -C /repo checkout -- .')}
json.dump(m,open(f'{DST}/meta.json','w'),indent=1)
PY
rm -rf $S
