#!/usr/bin/env python3
"""tools/mkseedtask.py <ID> <round>
Prepares the scratch worktree /tmp/seed/<ID> (reset to /repo's HEAD, built in
place) and writes /tmp/seed/<ID>/_out<round>/TASK.md + PROPERTY.txt for an
independent sub-agent.  The task text contains only the property and one-line
summaries of earlier seeded ideas for it (so the next one is different)."""
import glob, json, os, subprocess, sys

ID, RND = sys.argv[1], int(sys.argv[2])
wt = f"/tmp/seed/{ID}"
out = f"_out{RND}" if RND > 1 else "_out"
head = subprocess.check_output(["git", "-C", "/repo", "rev-parse", "HEAD"], text=True).strip()
if not os.path.isdir(wt):
    subprocess.check_call(["git", "-C", "/repo", "worktree", "add", "--detach", wt, head])
subprocess.check_call(["git", "-C", wt, "checkout", "-q", "--", "."])
subprocess.check_call(["git", "-C", wt, "checkout", "-q", "--detach", head])
subprocess.run(["/venv/bin/python", "setup.py", "build_ext", "-i"], cwd=wt,
               stdout=subprocess.DEVNULL, stderr=subprocess.DEVNULL, check=True)
prop = None
for line in open("/verif/properties.jsonl"):
    d = json.loads(line)
    if d["id"] == ID:
        prop = d
text = f"{ID}: {prop['title']}. {prop['statement']}"
if prop.get("quantifier"):
    text += f" ({prop['quantifier']['text']}.)"
prev = []
for m in sorted(glob.glob(f"/verif/seeded/{ID}*/meta.json")):
    prev.append(json.load(open(m))["summary"])
os.makedirs(f"{wt}/{out}", exist_ok=True)
open(f"{wt}/{out}/PROPERTY.txt", "w").write(text + "\n")
tmpl = open("/verif/tools/seedtask.tmpl").read()
body = tmpl.replace("@ID@", ID).replace("@OUT@", out).replace("@PROPERTY@", text)
if prev:
    body += ("\nIMPORTANT - earlier attempts already did the following, so do something DIFFERENT "
             "(a different function / mechanism / part of the property statement):\n")
    for p in prev:
        body += f"  PREVIOUS IDEA: {p}\n"
    body += (f"Do not look at other /tmp/seed/{ID}/_out* directories (earlier attempts' files); "
             f"write only to /tmp/seed/{ID}/{out}.\n")
open(f"{wt}/{out}/TASK.md", "w").write(body)
print(f"{wt}/{out}/TASK.md ({len(prev)} previous ideas)")
