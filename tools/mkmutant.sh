#!/bin/bash
# tools/mkmutant.sh <ID>/<name>.patch '<python code editing files relative to repo root>'
# Produces mutants/<ID>/<name>.patch as a diff against the current /repo tree.
set -e
cd "$(dirname "$0")/.."
S=$(mktemp -d /var/tmp/mk.XXXXXX)
rsync -a --exclude .git --exclude '*.so' --exclude build --exclude docs /repo/ $S/a/
cp -r $S/a $S/b
(cd $S/b && python3 -c "$2")
mkdir -p "mutants/$(dirname "$1")"
(cd $S && diff -ru a b > "$OLDPWD/mutants/$1") || true
rm -rf $S
test -s "mutants/$1" || { echo "empty mutant $1"; exit 1; }
