#!/usr/bin/env python3
"""tools/mutsweep.py - automatic mutation sweep over the code each property is
anchored in (blind-spot finder; NOT one of the registered checks).

  gen  [--out DIR]             enumerate mutants of the anchored functions
  run  [--out DIR] [--jobs N]  run the quick checks of the anchoring
                               properties (reduced budget) against each mutant;
                               survivors are then run against the repository's
                               six main test files
  report [--out DIR]           survivors that also pass the tests

Mutants are first-order, AST-located source edits: comparison / boolean /
arithmetic operator swaps, `not` removal, integer constant +1, `if c` ->
`if True/False` style condition pinning, statement deletion (-> pass), return
value -> None.  A function is mutated when its body overlaps an anchor range
(`anchors.*.where` in properties.jsonl, line numbers of the pinned commit,
mapped to function names so later fixes do not shift them).

All scratch state lives under DIR (default /var/tmp/mutsweep), never in /repo
or /verif; remove it when done.
"""
import argparse
import ast
import json
import os
import re
import shutil
import subprocess
import sys
import time
from concurrent.futures import ThreadPoolExecutor

VERIF = os.path.dirname(os.path.dirname(os.path.abspath(__file__)))
REPO = os.environ.get("VERIF_REPO", "/repo")
BASE_COMMIT = "75f5043"
PY = "/venv/bin/python"
SKIP_PROPS = {"C17"}          # C code: not mutated here
TESTS = ["psutil/tests/test_process.py", "psutil/tests/test_linux.py",
         "psutil/tests/test_system.py", "psutil/tests/test_misc.py",
         "psutil/tests/test_posix.py", "psutil/tests/test_contracts.py"]


# ---------------------------------------------------------------- anchors

def qualnames(tree):
    """[(qualname, lineno, end_lineno)] of every function (methods qualified)."""
    out = []

    def walk(node, prefix):
        for ch in ast.iter_child_nodes(node):
            if isinstance(ch, (ast.FunctionDef, ast.AsyncFunctionDef)):
                q = prefix + ch.name
                out.append((q, ch.lineno, ch.end_lineno))
                walk(ch, q + ".")
            elif isinstance(ch, ast.ClassDef):
                walk(ch, prefix + ch.name + ".")
            else:
                walk(ch, prefix)
    walk(tree, "")
    return out


def anchored_functions():
    """{file: {qualname: set(props)}} from the anchors, resolved at the pinned commit."""
    res = {}
    cache = {}
    for line in open(os.path.join(VERIF, "properties.jsonl")):
        d = json.loads(line)
        pid = d["id"]
        if pid in SKIP_PROPS:
            continue
        wheres = []
        for sec in ("state", "mechanism"):
            for a in d["anchors"].get(sec, []):
                wheres.append(a.get("where", ""))
        for w in wheres:
            for part in w.split(";"):
                m = re.match(r"\s*(psutil/[\w/]+\.py):([\d,\-\s]+)", part)
                if not m:
                    continue
                f = m.group(1)
                if f not in cache:
                    src = subprocess.check_output(
                        ["git", "-C", REPO, "show", f"{BASE_COMMIT}:{f}"], text=True)
                    cache[f] = qualnames(ast.parse(src))
                for rng in m.group(2).split(","):
                    rng = rng.strip()
                    if not rng:
                        continue
                    lo, _, hi = rng.partition("-")
                    lo = int(lo)
                    hi = int(hi or lo)
                    for q, a, b in cache[f]:
                        # innermost functions overlapping the range
                        if a <= hi and b >= lo:
                            res.setdefault(f, {}).setdefault(q, set()).add(pid)
    return res


# ---------------------------------------------------------------- mutation

CMP = {ast.Lt: "<=", ast.LtE: "<", ast.Gt: ">=", ast.GtE: ">", ast.Eq: "!=",
       ast.NotEq: "==", ast.In: "not in", ast.NotIn: "in", ast.Is: "is not",
       ast.IsNot: "is"}
BIN = {ast.Add: "-", ast.Sub: "+", ast.Mult: "//", ast.Div: "*",
       ast.FloorDiv: "*", ast.Mod: "//", ast.LShift: ">>", ast.RShift: "<<",
       ast.BitOr: "&", ast.BitAnd: "|"}


def seg(src_lines, node):
    if node.lineno == node.end_lineno:
        return src_lines[node.lineno - 1][node.col_offset:node.end_col_offset]
    out = [src_lines[node.lineno - 1][node.col_offset:]]
    out += src_lines[node.lineno:node.end_lineno - 1]
    out.append(src_lines[node.end_lineno - 1][:node.end_col_offset])
    return "\n".join(out)


def mutants_of_function(fn, src_lines):
    """Yield (op, node_span, replacement_text)."""
    def span(n):
        return (n.lineno, n.col_offset, n.end_lineno, n.end_col_offset)

    for node in ast.walk(fn):
        if isinstance(node, ast.Compare) and len(node.ops) == 1:
            op = type(node.ops[0])
            if op in CMP:
                new = "(%s %s %s)" % (seg(src_lines, node.left), CMP[op],
                                      seg(src_lines, node.comparators[0]))
                yield ("cmp:" + CMP[op], span(node), new)
        elif isinstance(node, ast.BoolOp):
            word = " or " if isinstance(node.op, ast.And) else " and "
            new = "(" + word.join("(" + seg(src_lines, v) + ")" for v in node.values) + ")"
            yield ("bool:" + word.strip(), span(node), new)
        elif isinstance(node, ast.UnaryOp) and isinstance(node.op, ast.Not):
            yield ("not-removed", span(node), "(" + seg(src_lines, node.operand) + ")")
        elif isinstance(node, ast.BinOp) and type(node.op) in BIN:
            if isinstance(node.left, ast.Constant) and isinstance(node.left.value, str):
                continue  # string formatting / concatenation
            if isinstance(node.op, ast.Mod) and isinstance(node.left, (ast.Constant, ast.JoinedStr)):
                continue
            new = "(%s %s %s)" % (seg(src_lines, node.left), BIN[type(node.op)],
                                  seg(src_lines, node.right))
            yield ("bin:" + BIN[type(node.op)], span(node), new)
        elif isinstance(node, ast.Constant) and type(node.value) is int:
            yield ("const+1", span(node), str(node.value + 1))
            if node.value not in (0,):
                yield ("const-1", span(node), str(node.value - 1))
        elif isinstance(node, (ast.If, ast.While)) :
            t = node.test
            if isinstance(node, ast.If):
                yield ("if-true", span(t), "True")
            yield ("if-false", span(t), "False")
        elif isinstance(node, ast.IfExp):
            yield ("ifexp-true", span(node.test), "True")
            yield ("ifexp-false", span(node.test), "False")
        elif isinstance(node, ast.Return) and node.value is not None \
                and not (isinstance(node.value, ast.Constant) and node.value.value is None):
            yield ("return-none", span(node.value), "None")
        elif isinstance(node, (ast.Expr, ast.AugAssign)) or (
                isinstance(node, ast.Assign) and len(node.targets) == 1):
            if isinstance(node, ast.Expr) and isinstance(node.value, ast.Constant):
                continue  # docstring
            yield ("stmt-deleted", span(node), "pass")
        elif isinstance(node, (ast.Continue, ast.Break)):
            yield ("stmt-deleted", span(node), "pass")
        elif isinstance(node, ast.Raise):
            yield ("raise-deleted", span(node), "pass")
        elif isinstance(node, ast.ExceptHandler) and node.type is not None:
            # narrow/widen nothing; swap handler body with re-raise
            pass


def apply_span(src_lines, sp, text):
    l1, c1, l2, c2 = sp
    lines = list(src_lines)
    head = lines[l1 - 1][:c1]
    tail = lines[l2 - 1][c2:]
    new = (head + text + tail).split("\n")
    lines[l1 - 1:l2] = new
    return "\n".join(lines) + "\n"


def gen(out):
    os.makedirs(out, exist_ok=True)
    funcs = anchored_functions()
    n = 0
    with open(os.path.join(out, "mutants.jsonl"), "w") as fh:
        for f in sorted(funcs):
            src = open(os.path.join(REPO, f)).read()
            src_lines = src.split("\n")
            tree = ast.parse(src)
            index = {}

            def walk(node, prefix):
                for ch in ast.iter_child_nodes(node):
                    if isinstance(ch, (ast.FunctionDef, ast.AsyncFunctionDef)):
                        index[prefix + ch.name] = ch
                        walk(ch, prefix + ch.name + ".")
                    elif isinstance(ch, ast.ClassDef):
                        walk(ch, prefix + ch.name + ".")
                    else:
                        walk(ch, prefix)
            walk(tree, "")
            seen = set()
            # innermost only: skip an outer function when an anchored inner one exists
            for q in sorted(funcs[f], key=lambda s: -s.count(".")):
                fn = index.get(q)
                if fn is None:
                    continue
                props = sorted(funcs[f][q])
                for op, sp, text in mutants_of_function(fn, src_lines):
                    if (sp, text) in seen:
                        continue
                    seen.add((sp, text))
                    new_src = apply_span(src_lines, sp, text)
                    try:
                        compile(new_src, f, "exec")
                    except SyntaxError:
                        continue
                    orig = seg(src_lines, type("N", (), dict(
                        lineno=sp[0], col_offset=sp[1], end_lineno=sp[2], end_col_offset=sp[3])))
                    n += 1
                    fh.write(json.dumps(dict(
                        id="m%05d" % n, file=f, func=q, props=props, op=op,
                        span=sp, orig=orig[:200], repl=text[:200])) + "\n")
    print("mutants:", n)


# ---------------------------------------------------------------- running

def _quick_budgets():
    out = {}
    for nm in os.listdir(os.path.join(VERIF, "props")):
        m = re.match(r"(c\d\d)_.*\.py$", nm)
        if m:
            src = open(os.path.join(VERIF, "props", nm)).read()
            b = re.search(r'budgets=\{"quick": (\d+)', src)
            out[m.group(1).upper()] = int(b.group(1)) if b else 1000
    return out


QUICK = _quick_budgets()


def module_of(pid):
    for nm in os.listdir(os.path.join(VERIF, "props")):
        if nm.lower().startswith(pid.lower() + "_") and nm.endswith(".py"):
            return "props." + nm[:-3]
    raise SystemExit("no module for " + pid)


def freeze_verif(out):
    """Private copy of the harness so that edits in /verif during a long sweep
    do not change (or break) the checks half-way."""
    dst = os.path.join(out, "verif")
    if os.path.exists(dst):
        shutil.rmtree(dst)
    os.makedirs(dst)
    for nm in ("props", "vlib", "replays", "known_findings.json", "properties.jsonl"):
        src = os.path.join(VERIF, nm)
        if os.path.isdir(src):
            shutil.copytree(src, os.path.join(dst, nm), ignore=shutil.ignore_patterns("__pycache__"))
        else:
            shutil.copy(src, dst)
    return dst


def run_one(m, out, base, budget, shards, verif=None, stage2=None):
    d = os.path.join(out, "work", m["id"])
    if os.path.exists(d):
        shutil.rmtree(d)
    os.makedirs(d)
    tree = os.path.join(d, "repo")
    subprocess.check_call(["cp", "-r", base, tree])
    src_lines = open(os.path.join(tree, m["file"])).read().split("\n")
    # a trailing "" from the final newline
    if src_lines and src_lines[-1] == "":
        src_lines = src_lines[:-1]
    open(os.path.join(tree, m["file"]), "w").write(apply_span(src_lines, tuple(m["span"]), None or m["_text"]))
    res = dict(id=m["id"], killed_by=None, checks={}, tests=None)
    verif = verif or VERIF
    env = dict(os.environ, VERIF_SCRATCH=d, VERIF_DIR=verif, VERIF_TIER="quick",
               VERIF_SEED="1", VERIF_REPO_COPY=tree, PYTHONPATH=tree + ":" + verif,
               PYTHONHASHSEED="0", PYTHONDONTWRITEBYTECODE="1")
    def run_tests():
        try:
            r = subprocess.run([PY, "-m", "pytest", "-q", "-x", "-p", "no:cacheprovider", "--timeout=120",
                                "--deselect", "psutil/tests/test_system.py::TestMiscAPIs::test_users"] + TESTS,
                               cwd=tree, env=dict(os.environ, PYTHONPATH=tree, PYTHONDONTWRITEBYTECODE="1"),
                               capture_output=True, text=True, timeout=600, start_new_session=True)
            last = r.stdout.strip().split("\n")[-1] if r.stdout.strip() else ""
            failed = [ln for ln in r.stdout.split("\n") if ln.startswith("FAILED") or ln.startswith("ERROR")][:2]
            return dict(rc=r.returncode, last=last[:200], failed=[f[:200] for f in failed])
        except subprocess.TimeoutExpired:
            return dict(rc=124, last="timeout", failed=[])

    plan = [(pid, max(4, QUICK[pid] // 40), shards) for pid in m["props"]]
    plan.append(("TESTS", 0, 0))
    if stage2:
        plan += [(pid, stage2[0], stage2[1]) for pid in m["props"]]
    for pid, bud, shr in plan:
        if pid == "TESTS":
            # reduced-budget checks did not object: only a change the
            # repository's tests accept is worth the full quick checks
            res["tests"] = run_tests()
            if res["tests"]["rc"] != 0:
                break
            continue
        t0 = time.time()
        try:
            cmd = [PY, "-m", module_of(pid), "--no-evidence", "--shards", str(shr)]
            if bud:
                cmd += ["--budget", str(bud)]
            r = subprocess.run(cmd, cwd=verif, env=env,
                               capture_output=True, text=True, timeout=600)
            rc = r.returncode
            tail = [ln for ln in r.stdout.split("\n") if ln.startswith("violation")][:1]
            if rc == 2:
                tail = (r.stdout + r.stderr).strip().split("\n")[-3:]
        except subprocess.TimeoutExpired:
            rc, tail = 124, ["timeout"]
        res["checks"][pid + ("" if pid not in res["checks"] else "#2")] = dict(
            rc=rc, s=round(time.time() - t0, 1), note=[t[:300] for t in tail])
        if rc == 1:
            res["killed_by"] = pid
            break
    shutil.rmtree(d, ignore_errors=True)
    return res


def run(out, jobs, budget, shards, only, limit):
    base = os.path.join(out, "base")
    if not os.path.exists(os.path.join(base, ".built")):
        if os.path.exists(base):
            shutil.rmtree(base)
        subprocess.check_call(["rsync", "-a", "--exclude", ".git", "--exclude", "build",
                               "--exclude", "docs", "--exclude", "__pycache__", "--exclude", "*.so",
                               REPO + "/", base + "/"])
        subprocess.check_call([PY, "setup.py", "build_ext", "-i"], cwd=base,
                              stdout=subprocess.DEVNULL, stderr=subprocess.DEVNULL)
        shutil.rmtree(os.path.join(base, "build"), ignore_errors=True)
        open(os.path.join(base, ".built"), "w").write("ok")
    muts = [json.loads(ln) for ln in open(os.path.join(out, "mutants.jsonl"))]
    done = set()
    resf = os.path.join(out, "results.jsonl")
    if os.path.exists(resf):
        done = {json.loads(ln)["id"] for ln in open(resf)}
    todo = []
    for m in muts:
        if m["id"] in done:
            continue
        if only and not (set(m["props"]) & set(only)):
            continue
        m["_text"] = m["repl"]
        if len(m["repl"]) >= 200:
            continue  # truncated text: skip (rare, very long expressions)
        todo.append(m)
    import random
    random.Random(0).shuffle(todo)   # partial sweeps stay representative
    if limit:
        todo = todo[:limit]
    print("to run:", len(todo), "already done:", len(done), flush=True)
    verif = freeze_verif(out)
    from concurrent.futures import as_completed
    with open(resf, "a") as fh, ThreadPoolExecutor(jobs) as ex:
        futs = [ex.submit(run_one, m, out, base, budget, shards, verif, (0, 4)) for m in todo]
        for i, fu in enumerate(as_completed(futs)):
            try:
                res = fu.result()
            except Exception as e:  # noqa: BLE001
                print("worker error", repr(e)[:200], flush=True)
                continue
            fh.write(json.dumps(res) + "\n")
            fh.flush()
            if i % 25 == 0:
                print(i, res["id"], res["killed_by"], res["tests"], flush=True)


def recheck(out, jobs):
    """Re-run the survivors (not killed, tests pass) against the CURRENT
    /verif at the full quick budget; writes recheck.jsonl."""
    base = os.path.join(out, "base")
    muts = {json.loads(ln)["id"]: json.loads(ln) for ln in open(os.path.join(out, "mutants.jsonl"))}
    rs = [json.loads(ln) for ln in open(os.path.join(out, "results.jsonl"))]
    surv = [muts[r["id"]] for r in rs if not r["killed_by"] and r["tests"] and r["tests"]["rc"] == 0]
    donef = os.path.join(out, "recheck.jsonl")
    done = set()
    if os.path.exists(donef):
        done = {json.loads(ln)["id"] for ln in open(donef)}
    todo = [m for m in surv if m["id"] not in done]
    print("survivors:", len(surv), "to recheck:", len(todo), flush=True)

    def one(m):
        m = dict(m, _text=m["repl"])
        d = os.path.join(out, "work", "re-" + m["id"])
        if os.path.exists(d):
            shutil.rmtree(d)
        os.makedirs(d)
        tree = os.path.join(d, "repo")
        subprocess.check_call(["cp", "-r", base, tree])
        src_lines = open(os.path.join(tree, m["file"])).read().split("\n")
        if src_lines and src_lines[-1] == "":
            src_lines = src_lines[:-1]
        open(os.path.join(tree, m["file"]), "w").write(apply_span(src_lines, tuple(m["span"]), m["_text"]))
        env = dict(os.environ, VERIF_SCRATCH=d, VERIF_DIR=VERIF, VERIF_TIER="quick", VERIF_SEED="1",
                   VERIF_REPO_COPY=tree, PYTHONPATH=tree + ":" + VERIF, PYTHONHASHSEED="0",
                   PYTHONDONTWRITEBYTECODE="1")
        res = dict(id=m["id"], killed_by=None, rcs={})
        for pid in m["props"]:
            try:
                r = subprocess.run([PY, "-m", module_of(pid), "--no-evidence", "--shards", "4"], cwd=VERIF,
                                   env=env, capture_output=True, text=True, timeout=900)
                rc = r.returncode
            except subprocess.TimeoutExpired:
                rc = 124
            res["rcs"][pid] = rc
            if rc == 1:
                res["killed_by"] = pid
                break
        shutil.rmtree(d, ignore_errors=True)
        return res

    from concurrent.futures import as_completed
    with open(donef, "a") as fh, ThreadPoolExecutor(jobs) as ex:
        for fu in as_completed([ex.submit(one, m) for m in todo]):
            res = fu.result()
            fh.write(json.dumps(res) + "\n")
            fh.flush()
    rs2 = [json.loads(ln) for ln in open(donef)]
    still = [r for r in rs2 if not r["killed_by"]]
    print(f"rechecked={len(rs2)} now killed={len(rs2) - len(still)} still surviving={len(still)}")
    for r in still:
        m = muts[r["id"]]
        print(f"{m['id']} {','.join(m['props'])} {m['file']}:{m['span'][0]} {m['func']} [{m['op']}] "
              f"{m['orig'][:70]!r} -> {m['repl'][:70]!r} {r['rcs']}")


def report(out):
    muts = {json.loads(ln)["id"]: json.loads(ln) for ln in open(os.path.join(out, "mutants.jsonl"))}
    rs = [json.loads(ln) for ln in open(os.path.join(out, "results.jsonl"))]
    killed = sum(1 for r in rs if r["killed_by"])
    errs = [r for r in rs if any(c["rc"] not in (0, 1) for c in r["checks"].values())]
    surv = [r for r in rs if not r["killed_by"]]
    surv_pass = [r for r in surv if r["tests"] and r["tests"]["rc"] == 0]
    print(f"run={len(rs)} killed_by_checks={killed} survived={len(surv)} "
          f"of which the tests also pass={len(surv_pass)} harness-errors={len(errs)}")
    for r in surv_pass:
        m = muts[r["id"]]
        print(f"{m['id']} {','.join(m['props'])} {m['file']}:{m['span'][0]} {m['func']} [{m['op']}] "
              f"{m['orig'][:70]!r} -> {m['repl'][:70]!r}")
    if errs:
        print("-- harness errors / timeouts")
        for r in errs[:40]:
            m = muts[r["id"]]
            print(m["id"], m["file"], m["span"][0], m["op"], {k: (c["rc"], c["note"][-1:] ) for k, c in r["checks"].items() if c["rc"] not in (0, 1)})


if __name__ == "__main__":
    ap = argparse.ArgumentParser()
    ap.add_argument("cmd", choices=["gen", "run", "report", "recheck"])
    ap.add_argument("--out", default="/var/tmp/mutsweep")
    ap.add_argument("--jobs", type=int, default=8)
    ap.add_argument("--budget", type=int, default=300)
    ap.add_argument("--shards", type=int, default=1)
    ap.add_argument("--only", nargs="*")
    ap.add_argument("--limit", type=int, default=0)
    a = ap.parse_args()
    if a.cmd == "gen":
        gen(a.out)
    elif a.cmd == "run":
        run(a.out, a.jobs, a.budget, a.shards, a.only, a.limit)
    elif a.cmd == "recheck":
        recheck(a.out, a.jobs)
    else:
        report(a.out)
