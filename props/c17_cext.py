"""C17 - the C extension is memory-safe and decodes OS records faithfully.

The extension is rebuilt with AddressSanitizer + UBSan (-fno-sanitize-recover)
and driven in child processes; every case is appended to a journal before it
runs, so the last journal line is the replay for a crash.

(i)   arguments of every extension entry point and of the public wrappers
(ii)  generated utmp files (selected with libc utmpname())  -> users()
(iii) generated mounts / filesystems files                  -> disk_partitions()
(iv)  the live interface list                               -> net_if_addrs/stats
"""

import ctypes
import json
import os
import pickle
import socket
import struct
import subprocess
import sys
import tempfile
import time

from hypothesis import strategies as st

from vlib import sanbuild
from vlib.runner import HarnessError
from vlib.runner import Property
from vlib.runner import Result
from vlib.runner import Stats
from vlib.runner import Violation
from vlib.runner import from_jsonable
from vlib.runner import main
from vlib.runner import to_jsonable

IN_CHILD = os.environ.get("PSV_SAN_CHILD") == "1"

UTMP_FMT = "<hxxi32s4s32s256shhiii4i20s"
UTMP_SIZE = struct.calcsize(UTMP_FMT)

# ------------------------------------------------------------------ strategies

BIG = [0, 1, -1, 2, 7, 8, 13, 255, 2**13, 2**16, 2**30, 2**31 - 1, 2**31, 2**32, 2**62, 2**63 - 1,
       2**63, 2**64, 10**30, -2**30, -2**31, -2**31 - 1, -2**63, -2**63 - 1, -10**30]


def anyint():
    return st.one_of(st.sampled_from(BIG), st.integers(-100, 100), st.integers(-2**70, 2**70))


def pid_arg():
    return st.one_of(st.just({"$pid": "child"}), st.just({"$pid": "child"}), st.just({"$pid": "absent"}),
                     st.just({"$pid": "self"}), st.sampled_from([-1, -2, 2**31, 2**31 - 1, 2**63, 10**25]),
                     anyint())


def name_arg():
    return st.one_of(
        st.sampled_from(["lo", "eth0", "ifb0", "nonexistent0", "", "x" * 15, "x" * 16, "x" * 17,
                         "y" * 255, "z" * 4096, "lo\x00garbage", "\xe9\xe8", "eth0:1"]),
        st.binary(max_size=40).map(lambda b: {"$b": b.decode("latin-1")}),
        st.text(max_size=20),
    )


def junk():
    return st.one_of(st.none(), st.just(1.5), st.just("str"), st.just({"$b": "bytes"}), st.just([]),
                     st.just([1, 2]), st.just({"$obj": "object"}), st.just(True), anyint())


def cpu_seq():
    item = st.one_of(anyint(), st.sampled_from([0, 1, 2, 3, 63, 64, 1023, 1024, 1025, 2**20]),
                     # fit a C long, not a C int; low 32 bits name an existing CPU
                     st.sampled_from([2**32, 2**32 + 1, 2**32 + 3, 2**40 + 2, -(2**32) + 3, 2**33]),
                     st.just("x"), st.none(), st.just(1.0))
    return st.one_of(
        st.lists(item, max_size=8),
        st.sampled_from([[2**32 + 3], [0, 2**32 + 1], [2**40 + 2, 1], [-(2**32) + 3], [2**32], [1, 2**33 + 1]]),
        st.just({"$obj": "hostile_len"}), st.just({"$obj": "hostile_getitem"}),
        st.just({"$obj": "neg_len"}), st.just({"$obj": "huge_range"}),
        st.just("0123"), st.just({"$b": "\x00\x01"}), st.just({"$tuple": [0, 1]}),
    )


def call_case():
    def c(fn, *args):
        return st.tuples(st.just("call"), st.just(fn), st.tuples(*args).map(list))

    return st.one_of(
        c("linux.proc_ioprio_get", pid_arg()),
        c("linux.proc_ioprio_set", pid_arg(), anyint(), anyint()),
        c("linux.proc_ioprio_set", st.just({"$pid": "child"}), anyint(), anyint()),
        c("linux.proc_cpu_affinity_get", pid_arg()),
        c("linux.proc_cpu_affinity_set", pid_arg(), cpu_seq()),
        c("linux.proc_cpu_affinity_set", st.just({"$pid": "child"}), cpu_seq()),
        c("linux.disk_partitions", name_arg()),
        c("linux.users"),
        c("linux.net_if_duplex_speed", name_arg()),
        c("linux.linux_sysinfo"),
        c("linux.check_pid_range", anyint()),
        c("linux.set_debug", junk()),
        c("posix.getpagesize"),
        c("posix.getpriority", pid_arg()),
        c("posix.setpriority", pid_arg(), anyint()),
        c("posix.setpriority", st.just({"$pid": "child"}), st.integers(-30, 30)),
        c("posix.net_if_addrs"),
        c("posix.net_if_flags", name_arg()),
        c("posix.net_if_is_running", name_arg()),
        c("posix.net_if_mtu", name_arg()),
        c("posix.net_if_duplex_speed", name_arg()),
        # wrong arity / types on anything
        st.tuples(st.just("call"),
                  st.sampled_from(["linux.proc_ioprio_get", "linux.proc_ioprio_set",
                                   "linux.proc_cpu_affinity_get", "linux.proc_cpu_affinity_set",
                                   "linux.disk_partitions", "linux.users", "linux.net_if_duplex_speed",
                                   "linux.linux_sysinfo", "linux.check_pid_range", "linux.set_debug",
                                   "posix.getpagesize", "posix.getpriority", "posix.setpriority",
                                   "posix.net_if_addrs", "posix.net_if_flags",
                                   "posix.net_if_is_running", "posix.net_if_mtu"]),
                  st.lists(junk(), max_size=4)),
        # public wrappers
        c("pub.Process", pid_arg()),
        c("pub.pid_exists", pid_arg()),
        c("pub.ionice", junk(), junk()),
        c("pub.ionice", anyint(), anyint()),
        c("pub.nice", anyint()),
        c("pub.nice", junk()),
        c("pub.cpu_affinity", cpu_seq()),
        c("pub.rlimit", anyint(), st.one_of(junk(), st.tuples(anyint(), anyint()).map(list))),
        c("pub.disk_partitions", st.booleans()),
        c("pub.net_if_stats"),
    )


def utmp_field(width):
    full = st.binary(min_size=width, max_size=width).map(lambda b: b.replace(b"\0", b"x"))
    return st.one_of(
        st.just(b""), st.sampled_from([b"root", b"user", b"pts/0", b"tty1", b":0", b":0.0", b":0.00",
                                       b"localhost", b"10.0.0.1", b"\xff\xfe", b"\xc3\xa9"]),
        full,                                            # filled to the full width, no terminator
        st.just(b"A" * width), st.just(b"B" * (width - 1)),
        st.binary(max_size=width),
    )


def utmp_case():
    rec = st.fixed_dictionaries(dict(
        type=st.sampled_from([7, 7, 7, 0, 1, 2, 5, 6, 8, 9, -1, 32767]),
        pid=st.one_of(st.sampled_from([0, 1, 4242, 2**31 - 1, -1]), st.integers(-2**31, 2**31 - 1)),
        line=utmp_field(32), id=st.binary(max_size=4), user=utmp_field(32),
        host=st.one_of(st.sampled_from([b":0", b":0.0", b":0.00", b":0.0.1", b":1", b":00", b" :0"]),
                       utmp_field(256)),
        tv_sec=st.one_of(st.sampled_from([0, 1, 2**31 - 1, -1, -2**31]), st.integers(-2**31, 2**31 - 1)),
        tail=st.binary(min_size=20, max_size=20),
        exit=st.tuples(st.integers(-2**15, 2**15 - 1), st.integers(-2**15, 2**15 - 1)),
    ))
    return st.tuples(st.just("utmp"), st.lists(rec, max_size=20),
                     st.binary(max_size=100))   # trailing partial record


MNT_DEV = [b"/dev/sda1", b"/dev/root", b"rootfs", b"none", b"tmpfs", b"proc", b"/dev/mapper/vg-lv",
           b"//server/share\\040name", b"/dev/\xe9", b"overlay", b"UUID=abc", b"/dev/loop0"]
MNT_DIR = [b"/", b"/mnt/a", b"/mnt/with\\040space", b"/mnt/tab\\011x", b"/mnt/nl\\012x", b"/mnt/bs\\134x",
           b"/proc", b"/sys", b"/mnt/\xff", b"/a/very/" + b"long/" * 30, b"/mnt/literal\\0", b"/mnt/\\04"]
# (the last ones are not UTF-8: the call raises UnicodeDecodeError - and must
# release what it had built for that entry exactly once)
MNT_TYPE = [b"ext4", b"tmpfs", b"proc", b"sysfs", b"zfs", b"overlay", b"xfs", b"fuse.sshfs", b"nfs4", b"btrfs",
            b"ext\xff4"]
MNT_OPTS = [b"rw", b"rw,relatime", b"ro,nosuid,nodev,noexec", b"rw,size=100k", b"defaults",
            b"rw,iocharset=\xe9", b"\x80"]


def _is_utf8(b_):
    try:
        b_.decode("utf-8")
        return True
    except UnicodeDecodeError:
        return False


def mounts_case():
    # type / options that are not UTF-8 make the whole call fail (by design of
    # the extension): allowed in one case out of five only, otherwise every
    # long table would end there and the semantic comparison would never run
    return st.sampled_from([False, False, False, False, True]).flatmap(_mounts_case)


def _mounts_case(undecodable):
    types = MNT_TYPE if undecodable else [t for t in MNT_TYPE if _is_utf8(t)]
    optss = MNT_OPTS if undecodable else [t for t in MNT_OPTS if _is_utf8(t)]
    junk = st.binary(max_size=30).map(lambda b: b.replace(b"\n", b" ").replace(b"\0", b" "))
    if not undecodable:
        junk = junk.map(lambda b: b if _is_utf8(b) else b.decode("latin-1").encode("ascii", "replace"))
    line = st.one_of(
        st.tuples(st.sampled_from(MNT_DEV), st.sampled_from(MNT_DIR), st.sampled_from(types),
                  st.sampled_from(optss), st.sampled_from([b"0 0", b"1 2", b"", b"0"]),
                  st.sampled_from([b" ", b"\t", b"  ", b" \t "])).map(
            lambda t: t[5].join([t[0], t[1], t[2], t[3]]) + (b" " + t[4] if t[4] else b"")),
        st.sampled_from([b"", b"# a comment", b"   ", b"onlydevice", b"dev /mnt", b"dev /mnt ext4",
                         b"\t/dev/sdb1 /lead ext4 rw 0 0", b"#/dev/sdc /c ext4 rw 0 0"]),
        junk,
        # no device ("none") on a file system type that /proc/filesystems may
        # list as physical: all=False must still leave it out
        st.tuples(st.sampled_from(MNT_DIR[:6]), st.sampled_from([b"ext4", b"xfs", b"btrfs", b"zfs", b"fuseblk"])).map(
            lambda t: b"none " + t[0] + b" " + t[1] + b" rw 0 0"),
    )
    fsline = st.sampled_from([b"nodev\tsysfs", b"nodev\ttmpfs", b"nodev\tproc", b"\text4", b"\txfs",
                              b"nodev\tzfs", b"\tbtrfs", b"nodev\toverlay", b"\tfuseblk"])
    return st.tuples(st.just("mounts"),
                     st.one_of(st.lists(line, max_size=12), st.lists(line, min_size=60, max_size=300)),
                     st.lists(fsline, max_size=9), st.booleans(),
                     # extra-long device name: inside (1.1-1.9 kB) and beyond
                     # the range where the line is compared with the model
                     st.sampled_from([0, 0, 0, 600, 1100, 1500, 1900, 3000, 9000, 70000]))


NETNS_NAMES = [
    "e0", "br-x", "veth1234567890", "enx001122334455", "enx00112233445", "enx0011223344556"[:15],
    "a.b", "if_15_chars_abc", "if_15_chars_ab", "x" * 15, "x" * 14, "docker0", "wlp0s20f3",
]


def netns_case():
    """Interfaces created in a private network namespace (needs CAP_SYS_ADMIN and
    iproute2; inconclusive otherwise)."""
    v4 = st.tuples(st.sampled_from(["10.1.2.3", "192.168.77.1", "172.16.0.9", "100.64.3.2"]),
                   st.sampled_from([8, 16, 24, 25, 30, 32]))
    v6 = st.tuples(st.sampled_from(["fd00::5", "2001:db8::1:2", "fd12:3456:789a::ffff"]),
                   st.sampled_from([48, 64, 96, 128]))
    spec = st.fixed_dictionaries(dict(
        name=st.sampled_from(NETNS_NAMES),
        mtu=st.sampled_from([68, 576, 1280, 1400, 1500, 9000, 65535]),
        up=st.booleans(), promisc=st.booleans(), allmulti=st.booleans(),
        mac=st.binary(min_size=6, max_size=6),
        v4=st.lists(v4, max_size=2, unique_by=lambda t: t[0]),
        v6=st.lists(v6, max_size=2, unique_by=lambda t: t[0]),
    ))
    return st.tuples(st.just("netns"), st.lists(spec, min_size=1, max_size=4, unique_by=lambda d: d["name"]))


def mounts_threads_case():
    """Two threads parse two different mount tables at the same time
    (getmntent(3) keeps its entry in one static buffer)."""
    line = st.tuples(st.sampled_from(MNT_DEV[:8]), st.sampled_from(MNT_DIR[:8]), st.sampled_from(MNT_TYPE[:10]),
                     st.sampled_from(MNT_OPTS[:5])).map(lambda t: b" ".join(t) + b" 0 0")
    return st.tuples(st.just("mounts-threads"), st.lists(line, min_size=40, max_size=200),
                     st.lists(line, min_size=40, max_size=200))


def strategy(tier):
    return st.one_of(call_case(), call_case(), call_case(), call_case(), call_case(), call_case(),
                     utmp_case(), utmp_case(), mounts_case(), mounts_case(),
                     st.tuples(st.just("ifaces")), netns_case(), mounts_threads_case())


# ------------------------------------------------------------------ child side


class HostileLen:
    def __len__(self):
        return 2**40

    def __getitem__(self, i):
        if i > 5:
            raise IndexError
        return i


class HostileGetitem:
    def __len__(self):
        return 3

    def __getitem__(self, i):
        raise RuntimeError("boom")


class NegLen:
    def __len__(self):
        return -1

    def __getitem__(self, i):
        return 0


_CHILD = {}


def sacrificial():
    p = _CHILD.get("proc")
    if p is None or p.poll() is not None:
        p = subprocess.Popen([sys.executable, "-S", "-c", "import time; time.sleep(3600)"],
                             env={k: v for k, v in os.environ.items() if k != "LD_PRELOAD"})
        _CHILD["proc"] = p
    return p.pid


def build_arg(a):
    if isinstance(a, dict):
        if "$pid" in a:
            return {"child": sacrificial, "absent": lambda: 4193999, "self": os.getpid}[a["$pid"]]()
        if "$b" in a:
            return a["$b"].encode("latin-1")
        if "$tuple" in a:
            return tuple(a["$tuple"])
        if "$obj" in a:
            return {"hostile_len": HostileLen, "hostile_getitem": HostileGetitem, "neg_len": NegLen,
                    "huge_range": lambda: range(2**20), "object": object}[a["$obj"]]()
    if isinstance(a, list):
        return [build_arg(x) for x in a]
    return a


def journal(case):
    path = os.environ.get("PSV_JOURNAL")
    if path:
        with open(path, "a") as f:
            f.write(json.dumps(to_jsonable(case)) + "\n")
            f.flush()
            os.fsync(f.fileno())


def decode_fs(b):
    return b.decode(sys.getfilesystemencoding(), sys.getfilesystemencodeerrors())


def cut(b):
    return b.split(b"\0", 1)[0]


def getmntent_model(blob):
    """Independent decoding of a mounts file after getmntent(3)."""
    out = []
    for raw in blob.split(b"\n"):
        line = raw.lstrip(b" \t")
        if not line or line.startswith(b"#"):
            continue
        if len(raw) > 2000:
            return None  # beyond glibc's line buffer: not asserted
        fields = []
        rest = line
        for _ in range(4):
            if rest is None:
                fields.append(b"")
                continue
            rest = rest.lstrip(b" \t") if fields else rest
            i = 0
            while i < len(rest) and rest[i:i + 1] not in (b" ", b"\t"):
                i += 1
            fields.append(rest[:i])
            rest = rest[i + 1:] if i < len(rest) else None

        def unescape(b):
            for esc, ch in ((b"\\040", b" "), (b"\\011", b"\t"), (b"\\012", b"\n"), (b"\\134", b"\\")):
                pass
            res = bytearray()
            i = 0
            while i < len(b):
                if b[i:i + 4] == b"\\040":
                    res += b" "
                    i += 4
                elif b[i:i + 4] == b"\\011":
                    res += b"\t"
                    i += 4
                elif b[i:i + 4] == b"\\012":
                    res += b"\n"
                    i += 4
                elif b[i:i + 4] == b"\\134":
                    res += b"\\"
                    i += 4
                elif b[i:i + 2] == b"\\\\":
                    res += b"\\"
                    i += 2
                else:
                    res.append(b[i])
                    i += 1
            return bytes(res)

        out.append(tuple(unescape(f) for f in fields))
    return out


def run_child_case(case):
    import psutil
    from psutil import _psutil_linux as cl
    from psutil import _psutil_posix as cp

    kind = case[0]
    journal(case)
    if kind == "call":
        _, fn, args = case
        args = [build_arg(a) for a in args]
        mod, name = fn.split(".", 1)
        label = fn
        try:
            if mod == "linux":
                r = getattr(cl, name)(*args)
            elif mod == "posix":
                r = getattr(cp, name)(*args)
            else:
                me = psutil.Process(sacrificial())
                if name == "Process":
                    r = psutil.Process(*args)
                elif name == "pid_exists":
                    r = psutil.pid_exists(*args)
                elif name == "disk_partitions":
                    r = psutil.disk_partitions(*args)
                elif name == "net_if_stats":
                    r = psutil.net_if_stats()
                else:
                    r = getattr(me, name)(*args)
            outcome = "value"
            if name == "set_debug":
                cl.set_debug(False)
            if fn == "pub.pid_exists" and not isinstance(r, bool):
                raise Violation("pid_exists-type", repr(r))
            if name in ("proc_cpu_affinity_set", "cpu_affinity") and args and args[0] == sacrificial() \
                    and len(args) > 1 and isinstance(args[1], (list, tuple)) \
                    and all(type(c_) is int for c_ in args[1]) and r is None and args[1]:
                # the call claims success: the kernel's mask may only hold CPUs
                # that were literally asked for (no number folded into range)
                mask = os.sched_getaffinity(sacrificial())
                if not mask <= set(args[1]):
                    raise Violation("integer-narrowing",
                                    f"{fn}({args[1]!r}) succeeded and the kernel's mask is now {sorted(mask)}")
                os.sched_setaffinity(sacrificial(), range(os.cpu_count() or 1))
        except Violation:
            raise
        except Exception as e:  # noqa: BLE001  (a Python exception is a fine outcome)
            outcome = type(e).__name__
            if isinstance(e, OSError) and e.errno:
                import errno as _e
                outcome += ":" + _e.errorcode.get(e.errno, str(e.errno))
        return Result([label, "outcome:" + outcome], f"{fn}|{outcome}")

    if kind == "utmp":
        _, recs, tail = case
        blob = b""
        exp = []
        full = False
        for r in recs:
            blob += struct.pack(UTMP_FMT, r["type"], r["pid"], bytes(r["line"]), bytes(r["id"]),
                                bytes(r["user"]), bytes(r["host"]), r["exit"][0], r["exit"][1], 0,
                                r["tv_sec"], 0, 0, 0, 0, 0, bytes(r["tail"]))
            if r["type"] == 7:
                user, line, host = cut(bytes(r["user"])[:32]), cut(bytes(r["line"])[:32]), cut(bytes(r["host"])[:256])
                if len(user) == 32 or len(line) == 32 or len(host) == 256:
                    full = True
                h = b"localhost" if host in (b":0", b":0.0") else host
                exp.append((decode_fs(user), decode_fs(line) or None, decode_fs(h), float(r["tv_sec"]), r["pid"]))
        blob += bytes(tail)[:UTMP_SIZE - 1]
        d = _CHILD.setdefault("tmp", tempfile.mkdtemp(prefix="psv-c17-", dir=os.environ.get("VERIF_SCRATCH")))
        path = os.path.join(d, "utmp")
        with open(path, "wb") as f:
            f.write(blob)
        libc = ctypes.CDLL(None)
        libc.utmpname(path.encode())
        try:
            got = psutil.users()
        finally:
            libc.utmpname(b"/var/run/utmp")
        got_t = [(u.name, u.terminal, u.host, u.started, u.pid) for u in got]
        if got_t != exp:
            for g, e in zip(got_t, exp):
                if g != e:
                    raise Violation("users-decoding", f"record decoded as {g!r}, the bytes say {e!r}")
            raise Violation("users-decoding", f"{len(got_t)} USER_PROCESS records returned, file has {len(exp)}")
        labels = ["utmp", "utmp-records=%d" % min(len(recs), 3)]
        if full:
            labels.append("utmp-full-width-field")
        return Result(labels, "utmp|full=%s|n=%d|types=%s" % (
            full, min(len(recs), 5), ",".join(map(str, sorted({r["type"] for r in recs}))))
            if recs else None)

    if kind == "mounts":
        _, lines, fslines, all_, longdev = case
        lines = [bytes(x) for x in lines]
        if longdev:
            # a long device name and, for the mid sizes, long options too
            # (overlay mounts with many lowerdir layers look like this)
            opts = b"rw,lowerdir=" + b":".join(b"/l%d" % i for i in range(longdev // 12)) \
                if longdev <= 1900 else b"rw"
            lines = lines + [b"/dev/" + b"L" * (longdev // 3) + b" /long ext4 " + opts + b" 0 0"] \
                if longdev <= 1900 else lines + [b"/dev/" + b"L" * longdev + b" /long ext4 rw 0 0"]
        blob = b"\n".join(lines) + b"\n"
        d = _CHILD.setdefault("tmp", tempfile.mkdtemp(prefix="psv-c17-", dir=os.environ.get("VERIF_SCRATCH")))
        proc = os.path.join(d, "procfs")
        os.makedirs(os.path.join(proc, "self"), exist_ok=True)
        with open(os.path.join(proc, "self", "mounts"), "wb") as f:
            f.write(blob)
        with open(os.path.join(proc, "filesystems"), "wb") as f:
            f.write(b"\n".join(bytes(x) for x in fslines) + (b"\n" if fslines else b""))
        old = psutil.PROCFS_PATH
        psutil.PROCFS_PATH = proc
        model = getmntent_model(blob)

        def utf8(b_):
            try:
                b_.decode("utf-8")
                return True
            except UnicodeDecodeError:
                return False
        try:
            try:
                got = psutil.disk_partitions(all=all_)
                raw = cl.disk_partitions(os.path.join(proc, "self", "mounts"))
            except UnicodeDecodeError as e:
                # type and options are plain C strings decoded as UTF-8: an
                # entry whose type/options are not UTF-8 cannot be returned.
                # Device and mount point are file names (raw bytes are
                # legal): they alone must not make the call fail
                if model is None or any(not utf8(typ) or not utf8(opts) for _d, _m, typ, opts in model):
                    return Result(["mounts", "mounts-undecodable"], None)
                raise Violation("mounts-decoding",
                                f"disk_partitions() raised {e!r}; only device / mount point names "
                                f"carry non-UTF-8 bytes: {[(d_, m_) for d_, m_, _t, _o in model if not utf8(d_) or not utf8(m_)][:3]}") from None
        finally:
            psutil.PROCFS_PATH = old
        labels = ["mounts", "mounts-all" if all_ else "mounts-physical"]
        if model is None:
            labels.append("mounts-long-line-crash-only")
            return Result(labels, "mounts|longline")
        exp_raw = []
        for dev, mp, typ, opts in model:
            try:
                exp_raw.append((decode_fs(dev), decode_fs(mp), typ.decode(), opts.decode()))
            except UnicodeDecodeError:
                return Result(labels + ["mounts-undecodable"], None)
        if [tuple(x) for x in raw] != exp_raw:
            for g, e in zip([tuple(x) for x in raw], exp_raw):
                if g != e:
                    raise Violation("mounts-decoding", f"entry decoded as {g!r}, getmntent(3) model says {e!r}")
            raise Violation("mounts-decoding", f"{len(raw)} entries, model {len(exp_raw)}")
        fstypes = set()
        for fl in fslines:
            fl = bytes(fl).decode().strip()
            if not fl.startswith("nodev"):
                fstypes.add(fl)
            elif fl.split("\t")[1] == "zfs":
                fstypes.add("zfs")
        exp = []
        for dev, mp, typ, opts in exp_raw:
            if dev == "none":
                dev = ""
            if not all_ and (not dev or typ not in fstypes):
                continue
            exp.append((dev, mp, typ, opts))
        got_t = [(p.device, p.mountpoint, p.fstype, p.opts) for p in got]
        ok = len(got_t) == len(exp) and all(
            g[1:] == e[1:] and (g[0] == e[0] or (e[0] in ("/dev/root", "rootfs") and g[0].startswith("/dev/")))
            for g, e in zip(got_t, exp))
        if not ok:
            raise Violation("disk_partitions", f"all={all_}: {got_t!r} expected {exp!r}")
        if any(b"\\0" in x for x in lines):
            labels.append("mounts-escape")
        if len(exp_raw) > 50:
            labels.append("mounts>50")
        return Result(labels, "mounts|all=%s|esc=%s|n=%d" % (
            all_, "mounts-escape" in labels, min(len(exp_raw), 60) // 10))

    if kind == "ifaces":
        addrs = psutil.net_if_addrs()
        stats = psutil.net_if_stats()
        names = {n for _i, n in socket.if_nameindex()}
        if set(stats) != names or not set(addrs) <= names:
            raise Violation("ifaces-names", f"stats {sorted(stats)} addrs {sorted(addrs)} kernel {sorted(names)}")
        for n in names:
            base = f"/sys/class/net/{n}"
            with open(base + "/mtu") as f:
                mtu = int(f.read())
            with open(base + "/flags") as f:
                flags = int(f.read(), 16)
            with open(base + "/address") as f:
                mac = f.read().strip()
            s = stats[n]
            if s.mtu != mtu:
                raise Violation("ifaces-mtu", f"{n}: {s.mtu} kernel {mtu}")
            with open(base + "/operstate") as f:
                oper = f.read().strip()
            # IFF_RUNNING is computed: administratively up and operstate up/unknown
            running = bool(flags & 1) and oper in ("up", "unknown")
            if ("up" in s.flags.split(",")) != bool(flags & 1) or s.isup != running \
                    or ("running" in s.flags.split(",")) != running \
                    or ("loopback" in s.flags.split(",")) != bool(flags & 8):
                raise Violation("ifaces-flags", f"{n}: {s} kernel flags {flags:#x} operstate {oper}")
            link = [a.address for a in addrs.get(n, []) if a.family == psutil.AF_LINK]
            if mac and link != [mac]:
                raise Violation("ifaces-mac", f"{n}: {link} kernel {mac}")
        inet6 = {}
        try:
            with open("/proc/net/if_inet6") as f:
                for ln in f:
                    parts = ln.split()
                    inet6.setdefault(parts[5], set()).add(
                        socket.inet_ntop(socket.AF_INET6, bytes.fromhex(parts[0])))
        except OSError:
            pass
        for n, want in inet6.items():
            have = {a.address.split("%")[0] for a in addrs.get(n, []) if a.family == socket.AF_INET6}
            if have != want:
                raise Violation("ifaces-inet6", f"{n}: {sorted(have)} kernel {sorted(want)}")
        return Result(["ifaces", "ifaces=%d" % len(names)], "ifaces|" + ",".join(sorted(names)))
    if kind == "netns":
        return run_netns(case[1])
    if kind == "mounts-threads":
        import threading
        d = _CHILD.setdefault("tmp", tempfile.mkdtemp(prefix="psv-c17-", dir=os.environ.get("VERIF_SCRATCH")))
        paths, alone = [], []
        for i, lines in enumerate((case[1], case[2])):
            pth = os.path.join(d, f"mounts-thread-{i}")
            with open(pth, "wb") as f:
                f.write(b"\n".join(bytes(x) for x in lines) + b"\n")
            paths.append(pth)
            alone.append(cl.disk_partitions(pth))       # single-threaded answer
        bad = []
        barrier = threading.Barrier(2)

        def worker(i):
            barrier.wait()
            for rep in range(30):
                got = cl.disk_partitions(paths[i])
                if got != alone[i]:
                    diff = [(a_, b_) for a_, b_ in zip(got, alone[i]) if a_ != b_][:2]
                    bad.append((i, rep, len(got), len(alone[i]), diff))
                    return

        ts = [threading.Thread(target=worker, args=(i,)) for i in (0, 1)]
        for t in ts:
            t.start()
        for t in ts:
            t.join()
        if bad:
            raise Violation("mounts-decoding",
                            f"two threads parsing different mount tables at once: thread {bad[0][0]}, "
                            f"repetition {bad[0][1]}: {bad[0][2]} entries (alone: {bad[0][3]}), "
                            f"first differences {bad[0][4]}")
        return Result(["mounts-threads"], "mounts-threads|%d|%d" % (len(case[1]) // 50, len(case[2]) // 50))
    raise HarnessError(f"unknown case kind {kind!r}")


def _kernel_if(name):
    """MTU and flags of an interface as the kernel reports them through the
    SIOCGIF* ioctls, issued from Python (independent of the C extension)."""
    import fcntl

    with socket.socket(socket.AF_INET, socket.SOCK_DGRAM) as sk:
        ifr = struct.pack("16sH22x", name.encode(), 0)
        flags = struct.unpack("16sH22x", fcntl.ioctl(sk, 0x8913, ifr))[1]      # SIOCGIFFLAGS
        ifr = struct.pack("16si20x", name.encode(), 0)
        mtu = struct.unpack("16si20x", fcntl.ioctl(sk, 0x8921, ifr))[1]        # SIOCGIFMTU
    return flags, mtu


def _netns_body(specs):
    """Runs in a forked grandchild: returns (code, payload); code 0 ok,
    3 violation (clause, detail), 4 inconclusive (reason)."""
    import ipaddress

    import psutil

    env = {k_: v_ for k_, v_ in os.environ.items() if k_ not in ("LD_PRELOAD", "ASAN_OPTIONS", "UBSAN_OPTIONS")}

    def ip(*args):
        return subprocess.run(("ip",) + args, capture_output=True, text=True, env=env, timeout=20)

    try:
        os.unshare(os.CLONE_NEWNET)
    except (OSError, AttributeError) as e:
        return 4, f"unshare(CLONE_NEWNET): {e!r}"
    try:
        for sp in specs:
            mac = bytearray(sp["mac"])
            mac[0] = (mac[0] & 0xFE) | 0x02
            macs = ":".join("%02x" % b_ for b_ in mac)
            cmds = [("link", "add", sp["name"], "type", "bridge"),
                    ("link", "set", sp["name"], "address", macs),
                    ("link", "set", sp["name"], "mtu", str(sp["mtu"]))]
            if sp["promisc"]:
                cmds.append(("link", "set", sp["name"], "promisc", "on"))
            if sp["allmulti"]:
                cmds.append(("link", "set", sp["name"], "allmulticast", "on"))
            for a_, l_ in sp["v4"]:
                cmds.append(("addr", "add", f"{a_}/{l_}", "dev", sp["name"]))
            for a_, l_ in sp["v6"]:
                cmds.append(("addr", "add", f"{a_}/{l_}", "dev", sp["name"], "nodad"))
            if sp["up"]:
                cmds.append(("link", "set", sp["name"], "up"))
            for c_ in cmds:
                r = ip(*c_)
                if r.returncode != 0:
                    return 4, f"ip {' '.join(c_)}: {r.stderr.strip()[:120]}"
    except (OSError, subprocess.SubprocessError) as e:
        return 4, f"iproute2: {e!r}"

    def truth():
        r = ip("-j", "addr", "show")
        if r.returncode != 0:
            raise OSError(r.stderr)
        out = {}
        for d in json.loads(r.stdout):
            addrs = set()
            for ai in d.get("addr_info", []):
                fam = socket.AF_INET if ai["family"] == "inet" else socket.AF_INET6
                net = ipaddress.ip_network("%s/%d" % (ai["local"], ai["prefixlen"]), strict=False)
                addrs.add((int(fam), ai["local"], str(net.netmask)))
            out[d["ifname"]] = dict(mac=d.get("address"), addrs=addrs)
        return out

    for attempt in (0, 1):
        try:
            before = truth()
            stats = psutil.net_if_stats()
            addrs = psutil.net_if_addrs()
            after = truth()
        except OSError as e:
            return 4, f"ip -j addr show: {e!r}"
        if before == after:
            break
    else:
        return 4, "interface table kept changing"
    names = set(after)
    if set(stats) != names:
        return 3, ("ifaces-names", f"net_if_stats() lists {sorted(stats)}, kernel {sorted(names)}")
    if not set(addrs) <= names or not all(n in addrs for n in names if after[n]["mac"]):
        return 3, ("ifaces-names", f"net_if_addrs() lists {sorted(addrs)}, kernel {sorted(names)}")
    for n in sorted(names):
        flags, mtu = _kernel_if(n)
        st_ = stats[n]
        fl = set(st_.flags.split(",")) if st_.flags else set()
        if st_.mtu != mtu:
            return 3, ("ifaces-mtu", f"{n}: net_if_stats() mtu {st_.mtu}, SIOCGIFMTU {mtu}")
        want = {"up": 0x1, "broadcast": 0x2, "loopback": 0x8, "running": 0x40, "noarp": 0x80,
                "promisc": 0x100, "allmulti": 0x200, "multicast": 0x1000}
        for word, bit in want.items():
            if (word in fl) != bool(flags & bit):
                return 3, ("ifaces-flags", f"{n}: net_if_stats() flags {st_.flags!r}, SIOCGIFFLAGS {flags:#x} "
                                           f"(bit {word})")
        if st_.isup != bool(flags & 0x40 and flags & 0x1):
            return 3, ("ifaces-flags", f"{n}: isup={st_.isup}, SIOCGIFFLAGS {flags:#x}")
        got = {(int(a_.family), a_.address.split("%")[0], a_.netmask) for a_ in addrs.get(n, [])
               if a_.family in (socket.AF_INET, socket.AF_INET6)}
        if got != after[n]["addrs"]:
            return 3, ("ifaces-inet", f"{n}: net_if_addrs() {sorted(got)}, kernel {sorted(after[n]['addrs'])}")
        link = [a_.address for a_ in addrs.get(n, []) if a_.family == psutil.AF_LINK]
        if after[n]["mac"] and link != [after[n]["mac"]]:
            return 3, ("ifaces-mac", f"{n}: {link} kernel {after[n]['mac']}")
    return 0, sorted(names)


def run_netns(specs):
    r, w = os.pipe()
    pid = os.fork()
    if pid == 0:
        code, payload = 5, "crashed"
        try:
            os.close(r)
            try:
                code, payload = _netns_body(specs)
            except BaseException as e:  # noqa: BLE001
                import traceback
                code, payload = 5, traceback.format_exc()[-1500:]
            os.write(w, json.dumps([code, payload]).encode())
        finally:
            os._exit(0)
    os.close(w)
    data = b""
    while True:
        chunk = os.read(r, 65536)
        if not chunk:
            break
        data += chunk
    os.close(r)
    _, status = os.waitpid(pid, 0)
    if not data:
        raise Violation("sanitizer-abort", f"netns worker died (status {status}) for {specs}")
    code, payload = json.loads(data.decode())
    if code == 3:
        raise Violation(payload[0], payload[1] + f" (interfaces {[sp['name'] for sp in specs]})")
    if code == 4:
        return Result(["netns-inconclusive"], None)
    if code != 0:
        raise HarnessError("netns worker: " + str(payload))
    lens = sorted({min(len(sp["name"]), 15) for sp in specs})
    labels = ["netns", "netns-ifaces=%d" % len(specs)]
    if 15 in lens:
        labels.append("netns-15-char-name")
    names = [sp["name"] for sp in specs]
    if any(a_ != b_ and a_.startswith(b_) for a_ in names for b_ in names):
        labels.append("netns-prefix-sibling")
    return Result(labels, "netns|" + ",".join(sorted(names)) + "|" + ",".join(
        "%s%s%s" % ("U" if sp["up"] else "d", "P" if sp["promisc"] else "", "M" if sp["allmulti"] else "")
        for sp in specs))


# ------------------------------------------------------------------ parent side


def _san_run(argv, journal_path, stderr_path, timeout):
    san = sanbuild.build()
    env = sanbuild.child_env(san)
    env["PSV_JOURNAL"] = journal_path
    with open(stderr_path, "wb") as err:
        try:
            r = subprocess.run([os.environ.get("VERIF_PY", "/venv/bin/python"), "-m", "props.c17_cext"] + argv,
                               env=env, stderr=err, stdout=subprocess.PIPE, timeout=timeout,
                               cwd=os.environ.get("VERIF_DIR", "/verif"))
            return r.returncode, r.stdout
        except subprocess.TimeoutExpired:
            return "timeout", b""


def sanitizer_summary(stderr_path):
    try:
        with open(stderr_path, "rb") as f:
            txt = f.read().decode("utf-8", "replace")
    except OSError:
        return ""
    keep = [ln for ln in txt.splitlines() if "runtime error" in ln or "ERROR: AddressSanitizer" in ln
            or "SUMMARY" in ln or ln.lstrip().startswith("#0") or ln.lstrip().startswith("#1")]
    return "\n".join(keep[:12]) or txt[-1500:]


def run_case(case):
    """In the sanitized child: execute.  In the parent (replay tier,
    --replay): run the single case in a sanitized child."""
    if IN_CHILD:
        return run_child_case(case)
    scratch = os.environ["VERIF_SCRATCH"]
    jp = tempfile.mktemp(prefix="c17-journal-", dir=scratch)
    ep = jp + ".stderr"
    cp_ = jp + ".case"
    with open(cp_, "w") as f:
        json.dump(to_jsonable(case), f)
    rc, out = _san_run(["--child-case", cp_], jp, ep, 300)
    if rc == 0:
        d = json.loads(out.decode().strip().splitlines()[-1])
        return Result(d["labels"], d["nontrivial"])
    if rc == 3:
        d = json.loads(out.decode().strip().splitlines()[-1])
        raise Violation(d["clause"], d["detail"])
    raise Violation("sanitizer-abort" if rc in (86, 87, -6, -11) else "abnormal-exit",
                    f"child exit {rc}\n{sanitizer_summary(ep)}")


def search(prop, prop_mod, tier, seed, budget, nshards):
    scratch = os.environ["VERIF_SCRATCH"]
    sanbuild.build()
    nshards = max(1, min(nshards, budget))
    per = max(1, budget // nshards)
    procs = []
    for i in range(nshards):
        jp = os.path.join(scratch, f"c17-journal-{i}")
        op = os.path.join(scratch, f"c17-out-{i}")
        ep = os.path.join(scratch, f"c17-stderr-{i}")
        env = sanbuild.child_env(sanbuild.build())
        env["PSV_JOURNAL"] = jp
        errf = open(ep, "wb")
        p = subprocess.Popen([os.environ.get("VERIF_PY", "/venv/bin/python"), "-m", "props.c17_cext",
                              "--child-search", tier, str(seed), str(i), str(nshards), str(per), op],
                             env=env, stderr=errf, stdout=subprocess.DEVNULL,
                             cwd=os.environ.get("VERIF_DIR", "/verif"))
        procs.append((p, jp, op, ep, errf))
    total = Stats()
    for p, jp, op, ep, errf in procs:
        rc = p.wait()
        errf.close()
        if rc == 0 and os.path.exists(op):
            with open(op, "rb") as f:
                total.merge(pickle.load(f))
            continue
        # abnormal exit: the last journal line is the crashing case
        last = None
        try:
            with open(jp) as f:
                for ln in f:
                    if ln.strip():
                        last = ln
        except OSError:
            pass
        if last is None:
            raise HarnessError(f"sanitized child exited {rc} before running a case:\n" + sanitizer_summary(ep))
        case = from_jsonable(json.loads(last))
        total.fail(case, Violation("sanitizer-abort" if rc in (86, 87, -6, -11) else "abnormal-exit",
                                   f"child exit {rc} while running this case\n{sanitizer_summary(ep)}"))
    return total


def child_main(argv):
    from vlib import runner

    if argv[0] == "--child-case":
        with open(argv[1]) as f:
            case = from_jsonable(json.load(f))
        try:
            res = run_child_case(case)
        except Violation as v:
            print(json.dumps({"clause": v.clause, "detail": str(v.detail)[:3000]}))
            _cleanup()
            sys.exit(3)
        print(json.dumps({"labels": list(res.labels), "nontrivial": res.nontrivial}))
        _cleanup()
        sys.exit(0)
    if argv[0] == "--child-search":
        tier, seed, shard, nshards, per, out = argv[1], int(argv[2]), int(argv[3]), int(argv[4]), int(argv[5]), argv[6]
        stats = runner._run_shard(PROP, tier, seed, shard, nshards, per)
        with open(out, "wb") as f:
            pickle.dump(stats, f)
        _cleanup()
        sys.exit(0)


def _cleanup():
    p = _CHILD.get("proc")
    if p is not None and p.poll() is None:
        p.kill()
        p.wait()
    d = _CHILD.get("tmp")
    if d:
        import shutil
        shutil.rmtree(d, ignore_errors=True)


PROP = Property(
    id="C17",
    level="exploration",
    rule=("The extension is rebuilt with ASan+UBSan and driven in child "
          "processes (journal before every case).  Hypothesis generates: (i) "
          "calls of every entry point of both method tables and of the public "
          "wrappers (Process, pid_exists, ionice, nice, cpu_affinity, rlimit, "
          "disk_partitions, net_if_stats) with ints of any size and sign, "
          "strings/bytes to 4 KiB incl. embedded NUL, wrong types and arity, "
          "sequences of arbitrary items and hostile __len__/__getitem__ "
          "objects; PIDs from {sacrificial child, own, absent, negative, > "
          "2^31}; (ii) utmp files of 0-20 records: every ut_type, string "
          "fields empty / short / filled to the full width without terminator "
          "/ non-UTF-8, hosts :0 :0.0 :0.00, int32 timestamps, trailing "
          "partial record, decoded independently with struct; (iii) mounts "
          "files (comments, blank and short lines, octal escapes, several "
          "separators, 60-300 entries, device names to 70 kB) + filesystems "
          "files, decoded by an independent getmntent(3) model (lines <= 2000 "
          "bytes; longer ones crash-only); (iv) the live interface list vs "
          "/sys/class/net and /proc/net/if_inet6.  Any sanitizer report or "
          "abnormal exit is a violation.  Non-trivial = a call reaching the "
          "syscall or a conversion error path, a utmp file with a full-width "
          "field, a mounts file with an escape or > 50 entries; distinct = "
          "(entry point, outcome class) | record-shape class."),
    strategy=strategy,
    run_case=run_case,
    budgets={"quick": 4800, "thorough": 56000},
    assumptions=[
        "coverage-guided byte fuzzing is not used: entry points take <= 3 scalar "
        "arguments; records are generated format-aware",
        "the MAC-formatting loop only sees the sandbox's interfaces (lo, eth0, ifb0, ifb1)",
        "non-UTF-8 bytes in mnt_type / mnt_opts raise UnicodeDecodeError (a Python exception) and are not asserted",
    ],
    trusted_base=["gcc 12 ASan/UBSan runtimes", "struct-based utmp decoder and getmntent(3) model in this module",
                  "hypothesis"],
)
PROP.search = search

if __name__ == "__main__":
    if len(sys.argv) > 1 and sys.argv[1].startswith("--child-"):
        child_main(sys.argv[1:])
    main(PROP, "props.c17_cext")
