"""C09 - disk/network counters: exact per-device values, totals never double
count; disk_usage arithmetic.

Oracle: column tables written from proc(5) (/proc/net/dev) and
Documentation/iostats.txt (/proc/diskstats, /sys/block/*/stat).
"""

from fractions import Fraction

from hypothesis import strategies as st

from vlib import gen
from vlib import simk
from vlib.runner import Property
from vlib.runner import Result
from vlib.runner import Violation
from vlib.runner import known_keys
from vlib.runner import main

KNOWN_24 = "C09-diskstats-linux24-layout"

NIC_NAMES = ["lo", "eth0", "eth1", "ifb0", "wlan0", "enp0s31f6", "br-1a2b3c4d5e6f",
             "veth0123456789a", "eth0:1", "eth0:avahi", "bond0.100", "tun0",
             "docker0", "a", "0", "1:2:3", "x-y_z"]
WHOLE = ["sda", "sdb", "nvme0n1", "vda", "loop0", "dm-0", "md127", "sr0",
         "mmcblk0", "cciss/c0d0", "xvda", "ram0", "nbd0", "hda"]
PARTS = ["sda1", "sda2", "sdb1", "nvme0n1p1", "nvme0n1p2", "vda1", "mmcblk0p1",
         "cciss/c0d0p1", "xvda1", "hda1", "md127p1"]


def ctr():
    return gen.counter()


def strategy(tier):
    nmax = 12 if tier == "quick" else 24
    nic = st.fixed_dictionaries(dict(
        name=st.sampled_from(NIC_NAMES),
        style=st.sampled_from(["new", "new", "old"]),
        rx=st.lists(ctr(), min_size=8, max_size=8),
        tx=st.lists(ctr(), min_size=8, max_size=8),
    ))
    disk = st.fixed_dictionaries(dict(
        name=st.sampled_from(WHOLE + PARTS),
        layout=st.sampled_from([14, 14, 18, 20, 20, 7, 15]),
        vals=st.lists(ctr(), min_size=17, max_size=17),
        major=st.integers(0, 259), minor=st.integers(0, 1048575),
        # whether /sys/block/<name> exists; None = by naming convention
        whole=st.sampled_from([None, None, None, True, False]),
        # /sys/block/<name>/queue/{hw_sector_size,logical_block_size,
        # physical_block_size}: the device's own block sizes (4Kn disks, zram,
        # nbd...).  diskstats sectors are 512 B whatever these say
        # (Documentation/admin-guide/iostats.rst)
        blk=st.sampled_from([512, 512, 4096, 4096, 2048, 65536]),
    ))
    return st.fixed_dictionaries(dict(
        nics=st.integers(0, 9).flatmap(lambda r: st.just([]) if r == 0 else
            st.lists(nic, min_size=1 if r < 4 else 2, max_size=nmax,
                     unique_by=lambda n: n["name"])),
        disks=st.integers(0, 9).flatmap(lambda r: st.just([]) if r == 0 else
            st.lists(disk, min_size=1 if r < 4 else 3, max_size=nmax,
                     unique_by=lambda d: d["name"])),
        diskstats=st.sampled_from([True, True, True, False]),
        statvfs=st.tuples(ctr(), ctr(), ctr(),
                          st.sampled_from([0, 1, 512, 1024, 4096, 4096, 4096,
                                           65536, 2**20, 2**32])),
    ))


def render_netdev(nics):
    out = [
        "Inter-|   Receive                                                |  Transmit",
        " face |bytes    packets errs drop fifo frame compressed multicast|bytes    packets errs drop fifo colls carrier compressed",
    ]
    for n in nics:
        v = tuple(n["rx"]) + tuple(n["tx"])
        if n["style"] == "new":
            # net/core/net-procfs.c dev_seq_printf_stats()
            out.append("%6s: %7d %7d %4d %4d %4d %5d %10d %9d "
                       "%8d %7d %4d %4d %4d %5d %7d %10d" % ((n["name"],) + v))
        else:
            # 2.4-era: "%6s:%8lu %7lu ..." (no blank after the colon)
            out.append("%6s:%8d %7d %4d %4d %4d %5d %10d %9d "
                       "%8d %7d %4d %4d %4d %5d %7d %10d" % ((n["name"],) + v))
    return ("\n".join(out) + "\n").encode()


def is_whole(d):
    if d["whole"] is not None:
        return d["whole"]
    return d["name"] in WHOLE


def render_diskstats(disks):
    out = []
    for d in disks:
        v = d["vals"]
        lay = d["layout"]
        if lay == 15:
            # Linux 2.4 /proc/partitions-style: major minor #blocks name + 11
            out.append("%4d %7d %10d %s %s" % (d["major"], d["minor"], 39082680,
                                               d["name"], " ".join(map(str, v[:11]))))
        elif lay == 7:
            # 2.6.0-2.6.24 partition line: rio rsect wio wsect
            out.append("%4d %7d %s %d %d %d %d" % (d["major"], d["minor"],
                                                    d["name"], v[0], v[2], v[4], v[6]))
        else:
            n = lay - 3
            out.append("%4d %7d %s %s" % (d["major"], d["minor"], d["name"],
                                          " ".join(map(str, v[:n]))))
    return ("\n".join(out) + ("\n" if out else "")).encode()


def expected_disk(d, sysfs=False):
    """iostats.txt: f1 reads, f2 reads merged, f3 sectors read, f4 ms reading,
    f5 writes, f6 writes merged, f7 sectors written, f8 ms writing,
    f9 in flight, f10 ms doing I/O, f11 weighted ms."""
    v = d["vals"]
    if d["layout"] == 7 and not sysfs:
        return (v[0], v[4], v[2] * 512, v[6] * 512, 0, 0, 0, 0, 0)
    return (v[0], v[4], v[2] * 512, v[6] * 512, v[3], v[7], v[1], v[5], v[9])


DISK_FIELDS = ("read_count", "write_count", "read_bytes", "write_bytes",
               "read_time", "write_time", "read_merged_count",
               "write_merged_count", "busy_time")
NET_FIELDS = ("bytes_sent", "bytes_recv", "packets_sent", "packets_recv",
              "errin", "errout", "dropin", "dropout")


def expected_nic(n):
    rx, tx = n["rx"], n["tx"]
    return (tx[0], rx[0], tx[1], rx[1], rx[2], tx[2], rx[3], tx[3])


def queue_attrs(k, d):
    base = "/sys/block/" + d["name"].replace("/", "!") + "/queue/"
    blk = d.get("blk", 512)
    for nm in ("hw_sector_size", "logical_block_size", "physical_block_size", "minimum_io_size"):
        k.set_file(base + nm, b"%d\n" % blk)


def run_case(case):
    import psutil

    known = known_keys("C09")
    excluded = 0
    disks = [dict(d) for d in case["disks"]]
    if KNOWN_24 in known and not case.get("allow_known"):
        for d in disks:
            if d["layout"] == 15:
                d["layout"] = 14
                excluded += 1
    nics = case["nics"]
    k = simk.Kernel()
    k.set_file("/proc/net/dev", render_netdev(nics))
    k.mkdir("/sys/block")
    whole = [d for d in disks if is_whole(d)]
    sysfs_mode = not case["diskstats"]
    if not sysfs_mode:
        k.set_file("/proc/diskstats", render_diskstats(disks))
        for d in whole:
            k.mkdir("/sys/block/" + d["name"].replace("/", "!"))
            queue_attrs(k, d)
    else:
        # only whole disks and (under the first one) the partitions
        listed = []
        for d in whole:
            base = "/sys/block/" + d["name"].replace("/", "!")
            k.set_file(base + "/stat",
                       (" ".join("%8d" % x for x in d["vals"]) + "\n").encode())
            k.set_file(base + "/queue/scheduler", b"none\n")
            queue_attrs(k, d)
            listed.append(d)
        if whole:
            base = "/sys/block/" + whole[0]["name"].replace("/", "!")
            for d in disks:
                if not is_whole(d):
                    pname = d["name"].replace("/", "!")
                    k.set_file(f"{base}/{pname}/stat",
                               (" ".join("%8d" % x for x in d["vals"]) + "\n").encode())
                    listed.append(d)
        disks = listed
    mnt = "/sim/mnt"
    sv = tuple(case["statvfs"])
    blocks, bfree, bavail, frsize = sv
    bfree = min(bfree, blocks)
    bavail = min(bavail, bfree)
    k.statvfs_map[mnt] = (blocks, bfree, bavail, frsize)

    def name_of(d):
        return d["name"].replace("/", "!") if sysfs_mode else d["name"]

    labels = set()
    with simk.installed(k):
        try:
            pernic = psutil.net_io_counters(pernic=True, nowrap=False)
            tot = psutil.net_io_counters(pernic=False, nowrap=False)
            perdisk = psutil.disk_io_counters(perdisk=True, nowrap=False)
            dtot = psutil.disk_io_counters(perdisk=False, nowrap=False)
            psutil.net_io_counters.cache_clear()
            psutil.disk_io_counters.cache_clear()
            pernic_w = psutil.net_io_counters(pernic=True, nowrap=True)
            perdisk_w = psutil.disk_io_counters(perdisk=True, nowrap=True)
            tot_w = psutil.net_io_counters(nowrap=True)
            dtot_w = psutil.disk_io_counters(nowrap=True)
            du = psutil.disk_usage(mnt)
            # a device listed in diskstats appears in /sys/block a moment
            # later (hot-plug): from then on it counts as a whole disk
            late = None
            if not sysfs_mode:
                parts = [d for d in disks if not is_whole(d)]
                if parts:
                    d_ = parts[0]
                    k.mkdir("/sys/block/" + d_["name"].replace("/", "!"))
                    queue_attrs(k, d_)
                    late = (d_, psutil.disk_io_counters(perdisk=False, nowrap=False))
            # every disk counter restarts lower (device re-created) and the
            # documented cache_clear() is called: the default per-disk call
            # (nowrap=True) must report the kernel's values again
            reset = None
            if not sysfs_mode and disks:
                psutil.disk_io_counters(perdisk=True)
                lower = [dict(d, vals=[v // 2 for v in d["vals"]]) for d in disks]
                k.set_file("/proc/diskstats", render_diskstats(lower))
                psutil.disk_io_counters.cache_clear()
                reset = (lower, psutil.disk_io_counters(perdisk=True))
                k.set_file("/proc/diskstats", render_diskstats(disks))
                psutil.disk_io_counters.cache_clear()
            # an interface goes away and comes back with smaller counters
            # (re-created veth, replugged adapter): the default call
            # (nowrap=True) must again report exactly the kernel's counters
            back = None
            if nics and case.get("replug", True):
                victim = nics[len(nics) // 2]
                others = [n for n in nics if n is not victim]
                k.set_file("/proc/net/dev", render_netdev(others))
                psutil.net_io_counters(pernic=True)
                reborn = dict(victim, rx=[x // 2 for x in victim["rx"]], tx=[x // 3 for x in victim["tx"]])
                k.set_file("/proc/net/dev", render_netdev(others + [reborn]))
                back = (reborn, psutil.net_io_counters(pernic=True))
        except Exception as e:  # noqa: BLE001
            import traceback
            raise Violation("no-exception", f"{e!r} "
                            + traceback.format_exc()[-600:]) from None

    # --- network
    exp_nics = {n["name"]: expected_nic(n) for n in nics}
    if not nics:
        if pernic != {} or tot is not None:
            raise Violation("net-empty", f"pernic={pernic!r} total={tot!r}")
    else:
        if set(pernic) != set(exp_nics):
            raise Violation("net-names", f"{sorted(pernic)} expected {sorted(exp_nics)}")
        for name, e in exp_nics.items():
            g = pernic[name]
            if g._fields != NET_FIELDS or tuple(g) != e:
                raise Violation("net-pernic", f"{name}: {g!r} expected {e}")
        esum = tuple(sum(c) for c in zip(*exp_nics.values()))
        if tot._fields != NET_FIELDS or tuple(tot) != esum:
            raise Violation("net-total", f"{tot!r} expected {esum}")
    if pernic_w != pernic or tot_w != tot:
        raise Violation("net-nowrap-fresh", "nowrap=True on a fresh cache differs")
    if back is not None:
        reborn, got = back
        e = expected_nic(reborn)
        g = got.get(reborn["name"])
        if g is None or tuple(g) != e:
            raise Violation("net-pernic", f"{reborn['name']} went away and came back with counters {e}; "
                                          f"net_io_counters(pernic=True) reports {g!r}")
        labels.add("nic-gone-and-back-lower")

    # --- disks
    exp_disks = {name_of(d): expected_disk(d, sysfs_mode) for d in disks}
    if not disks:
        if perdisk != {} or dtot is not None:
            raise Violation("disk-empty", f"perdisk={perdisk!r} total={dtot!r}")
    else:
        if set(perdisk) != set(exp_disks):
            raise Violation("disk-names", f"{sorted(perdisk)} expected {sorted(exp_disks)}")
        for name, e in exp_disks.items():
            g = perdisk[name]
            if g._fields != DISK_FIELDS or tuple(g) != e:
                raise Violation("disk-perdisk", f"{name}: {g!r} expected {e}")
    whole_listed = [d for d in disks if is_whole(d)]
    if not whole_listed:
        if dtot is not None:
            raise Violation("disk-total-none", f"no whole disk listed, total={dtot!r}")
    else:
        esum = tuple(sum(c) for c in zip(*[expected_disk(d, sysfs_mode)
                                           for d in whole_listed]))
        if dtot is None or dtot._fields != DISK_FIELDS or tuple(dtot) != esum:
            raise Violation("disk-total", f"{dtot!r} expected {esum} over "
                            f"{[d['name'] for d in whole_listed]}")
    if perdisk_w != perdisk or dtot_w != dtot:
        raise Violation("disk-nowrap-fresh", "nowrap=True on a fresh cache differs")
    if reset is not None:
        lower, got_pd = reset
        for d_ in lower:
            e = expected_disk(d_, sysfs_mode)
            g = got_pd.get(name_of(d_))
            if g is None or tuple(g) != e:
                raise Violation("disk-perdisk", f"{d_['name']}: counters restarted lower and cache_clear() was "
                                                f"called; disk_io_counters(perdisk=True) reports {g!r}, kernel {e}")
        labels.add("disk-counters-reset-then-cache_clear")
    if late is not None:
        d_, got_tot = late
        now_whole = whole_listed + [d_]
        esum = tuple(sum(c) for c in zip(*[expected_disk(x, sysfs_mode) for x in now_whole]))
        if got_tot is None or tuple(got_tot) != esum:
            raise Violation("disk-total", f"{d_['name']} appeared in /sys/block after the first call: total "
                                          f"{got_tot!r} expected {esum} over {[x['name'] for x in now_whole]}")
        labels.add("disk-appears-in-sysfs-later")

    # --- disk_usage
    total = blocks * frsize
    used = (blocks - bfree) * frsize
    free = bavail * frsize
    if (du.total, du.used, du.free) != (total, used, free):
        raise Violation("disk-usage", f"{du!r} expected total={total} used={used} free={free}")
    exact = Fraction(used * 100, used + free) if used + free else Fraction(0)
    if round(du.percent, 1) != du.percent or abs(Fraction(du.percent) - exact) > Fraction(1, 20) + Fraction(1, 10**9):
        raise Violation("disk-usage-percent", f"{du.percent!r} expected {float(exact)!r}")

    # --- classification
    layouts = sorted({d["layout"] for d in disks})
    parts = [d for d in disks if not is_whole(d)]
    if len(disks) >= 2 and parts and whole_listed:
        labels.add("disks+partitions")
    if any(l != 20 for l in layouts):
        labels.add("layouts=" + "/".join(map(str, layouts)))
    if sysfs_mode:
        labels.add("sysfs-fallback")
    if any(":" in n["name"] for n in nics):
        labels.add("nic-colon")
    if any(n["style"] == "old" for n in nics):
        labels.add("nic-oldstyle")
    if any("/" in d["name"] for d in disks):
        labels.add("disk-slash")
    hot = set()
    for n in nics:
        e = expected_nic(n)
        for i in (4, 5, 6, 7):
            if e[i]:
                hot.add(NET_FIELDS[i])
    for d in disks:
        e = expected_disk(d, sysfs_mode)
        for i in (6, 7, 8):
            if e[i]:
                hot.add(DISK_FIELDS[i])
    if len(nics) >= 2:
        labels.add("nics>=2")
    if not nics:
        labels.add("no-nics")
    if not disks:
        labels.add("no-disks")
    if disks and not whole_listed:
        labels.add("only-partitions")
    if used + free == 0:
        labels.add("statvfs-zero")
    nontrivial = None
    if labels - {"no-nics", "no-disks"} or hot:
        nontrivial = ",".join(sorted(labels)) + "|" + ",".join(sorted(hot))
    return Result(sorted(labels) + sorted("hot-" + h for h in hot), nontrivial,
                  {"excluded": excluded})


PROP = Property(
    prelude=True,
    id="C09",
    level="exploration",
    rule=("Hypothesis generates /proc/net/dev (0-12 NICs, names with ':' "
          "digits, 15 chars, both colon styles, counters to 2^64-1), "
          "/proc/diskstats with any mix of 14/18/20-field disk lines and "
          "7-field partition lines (15-field Linux-2.4 lines are a recorded "
          "known finding and are excluded from the search, counted in "
          "excluded_by_known_finding), a /sys/block tree saying which names "
          "are whole disks, the /sys/block/*/stat fallback, and statvfs "
          "tuples.  Non-trivial = >=2 devices with a partition, a non-default "
          "line layout, a non-zero value in errin/errout/dropin/dropout/"
          "merged/busy columns, names with ':' or '/', sysfs fallback; "
          "distinct = label set x non-zero column set."),
    strategy=strategy,
    run_case=run_case,
    budgets={"quick": 12000, "thorough": 60000},
    assumptions=[
        "statvfs results satisfy f_bavail <= f_bfree <= f_blocks",
        "device names are unique within one file",
        "column meanings are those of proc(5) and Documentation/iostats.txt",
    ],
    trusted_base=["vlib/simk.py file layer", "hypothesis"],
)

if __name__ == "__main__":
    main(PROP, "props.c09_iocounters")
