"""C13 - process memory figures agree with the kernel's per-mapping accounting.

Domain: statm 7-tuples, smaps mapping lists (repeated paths, paths with
spaces/colons/' (deleted)', anonymous mappings, optional lines), roll-up file
present or failing.  Oracle: sums over the model's mappings.
"""

import warnings
from fractions import Fraction

from hypothesis import strategies as st

from vlib import simk
from vlib.runner import HarnessError
from vlib.runner import Property
from vlib.runner import Result
from vlib.runner import Violation
from vlib.runner import main

PAGE = simk.PAGESIZE
ROOT = "/simroot"

PATHS = ["", "", "[heap]", "[stack]", "[vdso]", ROOT + "/lib/libc.so.6",
         ROOT + "/lib/libc.so.6", ROOT + "/bin/app", ROOT + "/my dir/lib x.so",
         ROOT + "/shm/a:b", ROOT + "/tmp/gone (deleted)",
         ROOT + "/tmp/kept (deleted)", "/memfd:name (deleted)", "[anon:tag]",
         ROOT + "/lib/\xe9\xe8.so", "anon_inode:[io_uring]", ROOT + "/x:",
         # runs of blanks / tabs inside a name are part of the name
         ROOT + "/data/My  Lib.so", ROOT + "/data/My Lib.so", ROOT + "/data/tab\there.bin",
         ROOT + "/data/My   Lib.so",
         # the kernel escapes only \n in these paths: a carriage return stays raw
         ROOT + "/data/dos\rname.bin", ROOT + "/data/x\r00400000-00401000 r-xp 00000000 fd:01 7 /y"]

CORE = ["Size", "Rss", "Pss", "Shared_Clean", "Shared_Dirty", "Private_Clean",
        "Private_Dirty", "Referenced", "Anonymous", "Swap"]
# kernel order of everything we may print
ORDER = ["Size", "KernelPageSize", "MMUPageSize", "Rss", "Pss", "Pss_Dirty",
         "Pss_Anon", "Pss_File", "Shared_Clean", "Shared_Dirty",
         "Private_Clean", "Private_Dirty", "Referenced", "Anonymous", "KSM",
         "LazyFree", "AnonHugePages", "ShmemPmdMapped", "FilePmdMapped",
         "Shared_Hugetlb", "Private_Hugetlb", "Swap", "SwapPss", "Locked"]
OPTIONAL = ["KernelPageSize", "MMUPageSize", "Pss_Dirty", "Pss_Anon", "Pss_File",
            "KSM", "LazyFree", "AnonHugePages", "Shared_Hugetlb",
            "Private_Hugetlb", "SwapPss", "Locked"]


def kb():
    return st.one_of(st.sampled_from([0, 0, 4, 8, 132, 2**20, 2**30, 2**40]),
                     st.integers(0, 4096), st.integers(0, 2**40))


def mapping():
    return st.fixed_dictionaries(dict(
        path=st.integers(0, len(PATHS) - 1),
        perms=st.sampled_from(["r-xp", "rw-p", "r--p", "---p", "rw-s", "rwxp"]),
        core=st.lists(kb(), min_size=len(CORE), max_size=len(CORE)),
        opt=st.dictionaries(st.sampled_from(OPTIONAL), kb(), max_size=6),
        thp=st.sampled_from([None, 0, 1]),
        pkey=st.sampled_from([None, 0, 3]),
        vmflags=st.sampled_from([None, "rd ex mr mw me", "rd wr mr mw me ac sd", "mr"]),
    ))


def strategy(tier):
    nmax = 12 if tier == "quick" else 40
    return st.fixed_dictionaries(dict(
        statm=st.lists(st.one_of(st.sampled_from([0, 1, 2**20, 2**40]),
                                 st.integers(0, 2**22)), min_size=7, max_size=7),
        maps=st.lists(mapping(), max_size=nmax),
        rollup=st.sampled_from(["auto", "auto", "enoent", "esrch"]),
        # older kernels print fewer lines - for every mapping alike
        # older kernels print fewer lines per mapping (Pss since 2.6.25,
        # Swap 2.6.26, Referenced 2.6.22, Anonymous 2.6.34 ...): 0 is reported
        drop_core=st.sampled_from([None, None, None, None, "Swap", "Anonymous", "Referenced", "Pss",
                                   "Shared_Clean", "Shared_Dirty", "Private_Clean", "Private_Dirty"]),
        memtotal_kb=st.one_of(st.sampled_from([1, 4, 2**20, 2**34]), st.integers(1, 2**36)),
        # memory is hot-added / ballooned: MemTotal changes, virtual_memory()
        # reports the new total, memory_percent() is asked again
        memtotal2_kb=st.one_of(st.none(), st.sampled_from([1, 8, 2**21]), st.integers(1, 2**36)),
        oneshot=st.booleans(),   # all calls inside one `with p.oneshot():` block
        memtype=st.sampled_from(["rss", "vms", "shared", "text", "lib", "data",
                                 "dirty", "uss", "pss", "swap", "bogus", "", "RSS", "size",
                                 # not fields, though attributes of every named tuple
                                 "count", "index", "_fields", "_asdict", "__len__"]),
    ))


def build_maps(case):
    maps = []
    addr = 0x400000
    for m in case["maps"]:
        size = 0x1000 * (1 + (m["core"][0] % 7))
        fields = dict(zip(CORE, m["core"]))
        fields.update(m["opt"])
        if case["drop_core"]:
            fields.pop(case["drop_core"], None)
        ordered = [(k_, fields[k_]) for k_ in ORDER if k_ in fields]
        extra = []
        if m["thp"] is not None:
            extra.append(b"THPeligible:    %d" % m["thp"])
        if m["pkey"] is not None:
            extra.append(b"ProtectionKey:  %8d" % m["pkey"])
        if m["vmflags"] is not None:
            extra.append(("VmFlags: " + m["vmflags"]).rstrip(" ").encode()
                         if m["vmflags"] else b"VmFlags: ")
        path = PATHS[m["path"]]
        maps.append(simk.Mapping(
            addr="%08x-%08x" % (addr, addr + size), perms=m["perms"],
            offset="%08x" % 0, dev="fd:01" if path.startswith("/") else "00:00",
            inode=1234 if path.startswith("/") else 0, path=path,
            fields=ordered, extra=extra))
        addr += size + 0x1000
    return maps


def clean_path(path, existing):
    if not path:
        return "[anon]"
    p = path.strip()
    if p.endswith(" (deleted)") and p not in existing:
        p = p[:-10]
    return p


OUT_FIELDS = ["Rss", "Size", "Pss", "Shared_Clean", "Shared_Dirty",
              "Private_Clean", "Private_Dirty", "Referenced", "Anonymous", "Swap"]


def run_case(case):
    import psutil

    k = simk.Kernel()
    pid = 321
    maps = build_maps(case)
    existing = {ROOT + "/tmp/kept (deleted)"}
    for p_ in existing:
        k.set_file(p_, b"x")
    def meminfo(total_kb):
        k.set_file("/proc/meminfo", (
            "MemTotal:       %8d kB\nMemFree:        %8d kB\nMemAvailable:   %8d kB\n"
            "Buffers:               0 kB\nCached:                0 kB\nShmem: 0 kB\n"
            "Active: 0 kB\nInactive: 0 kB\nSReclaimable: 0 kB\nSlab: 0 kB\n"
            % (total_kb, 0, 0)).encode())

    meminfo(case["memtotal_kb"])
    k.spawn(pid, statm=tuple(case["statm"]), maps=maps, rollup=case["rollup"])
    out = {}
    with simk.installed(k), warnings.catch_warnings():
        warnings.simplefilter("ignore")
        p = psutil.Process(pid)
        calls = [("memory_info", p.memory_info),
                 ("memory_full_info", p.memory_full_info),
                 ("maps_ext", lambda: p.memory_maps(grouped=False)),
                 ("maps_grouped", lambda: p.memory_maps(grouped=True))]
        import contextlib
        with (p.oneshot() if case.get("oneshot") else contextlib.nullcontext()):
            for name, fn in calls:
                try:
                    out[name] = fn()
                except Exception as e:  # noqa: BLE001
                    import traceback
                    raise Violation(name + "-exception", f"{e!r} " + traceback.format_exc()[-500:]) from None
        try:
            out["percent"] = ("ok", p.memory_percent(case["memtype"]))
        except ValueError as e:
            out["percent"] = ("valueerror", e)
        except Exception as e:  # noqa: BLE001
            raise Violation("memory_percent-exception",
                            f"memory_percent({case['memtype']!r}) raised {e!r}") from None
        if case.get("memtotal2_kb") and out["percent"][0] == "ok":
            meminfo(case["memtotal2_kb"])
            try:
                vm_total = psutil.virtual_memory().total
                out["percent2"] = (vm_total, p.memory_percent(case["memtype"]))
            except Exception as e:  # noqa: BLE001
                raise Violation("memory_percent-exception", f"after MemTotal changed: {e!r}") from None

    s = case["statm"]
    exp_info = dict(rss=s[1] * PAGE, vms=s[0] * PAGE, shared=s[2] * PAGE,
                    text=s[3] * PAGE, lib=s[4] * PAGE, data=s[5] * PAGE,
                    dirty=s[6] * PAGE)
    mi = out["memory_info"]
    if mi._fields != ("rss", "vms", "shared", "text", "lib", "data", "dirty") \
            or mi._asdict() != exp_info:
        raise Violation("memory_info", f"{mi!r} expected {exp_info}")
    sums = {}
    for m in maps:
        for name, v in m.fields:
            sums[name] = sums.get(name, 0) + v
    uss = (sums.get("Private_Clean", 0) + sums.get("Private_Dirty", 0)
           + sums.get("Private_Hugetlb", 0)) * 1024
    exp_full = dict(exp_info, uss=uss, pss=sums.get("Pss", 0) * 1024,
                    swap=sums.get("Swap", 0) * 1024)
    mf = out["memory_full_info"]
    if mf._fields != ("rss", "vms", "shared", "text", "lib", "data", "dirty",
                      "uss", "pss", "swap") or mf._asdict() != exp_full:
        raise Violation("memory_full_info",
                        f"{mf!r} expected {exp_full} (rollup={case['rollup']})")
    # ungrouped
    exp_rows = []
    for m in maps:
        f = dict(m.fields)
        exp_rows.append((m.addr, m.perms, clean_path(m.path, existing))
                        + tuple(f.get(n, 0) * 1024 for n in OUT_FIELDS))
    ext = out["maps_ext"]
    ext_fields = ("addr", "perms", "path", "rss", "size", "pss", "shared_clean",
                  "shared_dirty", "private_clean", "private_dirty", "referenced",
                  "anonymous", "swap")
    if [tuple(r) for r in ext] != exp_rows or any(r._fields != ext_fields for r in ext):
        for a, b in zip([tuple(r) for r in ext], exp_rows):
            if a != b:
                raise Violation("memory_maps-ungrouped", f"row {a} expected {b}")
        raise Violation("memory_maps-ungrouped",
                        f"{len(ext)} rows expected {len(exp_rows)}")
    # grouped
    exp_g = {}
    for r in exp_rows:
        cur = exp_g.get(r[2])
        exp_g[r[2]] = tuple(r[3:]) if cur is None else tuple(
            a + b for a, b in zip(cur, r[3:]))
    got_g = {}
    for r in out["maps_grouped"]:
        if r._fields != ("path",) + ext_fields[3:]:
            raise Violation("memory_maps-grouped-fields", repr(r._fields))
        if r.path in got_g:
            raise Violation("memory_maps-grouped", f"path {r.path!r} listed twice")
        got_g[r.path] = tuple(r[1:])
    if got_g != exp_g:
        raise Violation("memory_maps-grouped", f"{got_g} expected {exp_g}")
    # memory_percent
    kind, val = out["percent"]
    mt = case["memtype"]
    if mt not in exp_full:
        if kind != "valueerror":
            raise Violation("memory_percent-unknown", f"memtype {mt!r} gave {val!r}")
    else:
        exact = Fraction(100 * exp_full[mt], case["memtotal_kb"] * 1024)
        if kind != "ok" or abs(Fraction(val) - exact) > abs(exact) / 10**12:
            raise Violation("memory_percent", f"{mt}: {val!r} expected {float(exact)!r}")
        if "percent2" in out:
            vm_total, val2 = out["percent2"]
            exact2 = Fraction(100 * exp_full[mt], case["memtotal2_kb"] * 1024)
            if vm_total != case["memtotal2_kb"] * 1024 or abs(Fraction(val2) - exact2) > abs(exact2) / 10**12:
                raise Violation("memory_percent", f"{mt}: MemTotal went {case['memtotal_kb']} -> {case['memtotal2_kb']} kB, "
                                f"virtual_memory().total = {vm_total}, then memory_percent = {val2!r}, "
                                f"expected {float(exact2)!r}")

    labels = set()
    paths = [r[2] for r in exp_rows]
    if len(paths) != len(set(paths)):
        labels.add("shared-path")
    if any(m.extra or any(n in OPTIONAL for n, _ in m.fields) for m in maps):
        labels.add("optional-lines")
    if any(n == "Private_Hugetlb" and v for m in maps for n, v in m.fields):
        labels.add("private-hugetlb")
    if case["rollup"] != "auto":
        labels.add("rollup-" + case["rollup"])
    if any(" " in p_ or ":" in p_ for p_ in paths):
        labels.add("path-space-or-colon")
    if any(PATHS[m["path"]].endswith(" (deleted)") for m in case["maps"]):
        labels.add("deleted-suffix")
    if not maps:
        labels.add("no-maps")
    if "[anon]" in paths:
        labels.add("anon")
    if mt not in exp_full:
        labels.add("bad-memtype")
    if case["drop_core"] and case["maps"]:
        labels.add("missing-core-line")
    nontrivial = None
    if labels & {"shared-path", "optional-lines", "rollup-enoent", "rollup-esrch"}:
        nontrivial = ",".join(sorted(labels))
    return Result(sorted(labels) or ["plain"], nontrivial)


def calibrate():
    """Headers and value lines of the live /proc/self/smaps re-rendered by the
    model must be byte-identical."""
    with open("/proc/self/smaps", "rb") as f:
        live = f.read().decode("utf-8", "surrogateescape").split("\n")
    headers = 0
    values = 0
    for ln in live:
        if not ln:
            continue
        first = ln.split(None, 1)[0]
        if first.endswith(":"):
            parts = ln.split()
            if len(parts) == 3 and parts[2] == "kB":
                mine = simk.smaps_value_line(first[:-1], int(parts[1])).decode()
                if mine != ln:
                    raise HarnessError(f"smaps value line: model {mine!r} live {ln!r}")
                values += 1
            continue
        f_ = ln.split(None, 5)
        path = f_[5] if len(f_) == 6 else ""
        m = simk.Mapping(addr=f_[0], perms=f_[1], offset=f_[2], dev=f_[3],
                         inode=int(f_[4]), path=path)
        mine = simk.render_map_header(m).decode("utf-8", "surrogateescape")
        if mine != ln:
            raise HarnessError(f"smaps header: model {mine!r} live {ln!r}")
        headers += 1
    with open("/proc/self/smaps_rollup", "rb") as f:
        r = f.read().split(b"\n")
    if not r[0].endswith(b"[rollup]") or not any(x.startswith(b"Pss:") for x in r) \
            or not any(x.startswith(b"Private_Clean:") for x in r):
        raise HarnessError("smaps_rollup shape")
    with open("/proc/self/statm", "rb") as f:
        if len(f.read().split()) != 7:
            raise HarnessError("statm is not 7 fields")
    return {"live_headers": headers, "live_value_lines": values}


PROP = Property(
    prelude=True,
    id="C13",
    level="exploration",
    rule=("Hypothesis generates statm 7-tuples (to 2^40 pages) and smaps "
          "mapping lists of 0-12 (thorough 40) entries: repeated paths, paths "
          "with spaces/colons/' (deleted)' (literal path existing or not), "
          "anonymous and pseudo mappings, optional kB lines (Pss_Anon, "
          "Pss_Dirty, SwapPss, Private_Hugetlb, ...), non-kB lines "
          "(THPeligible, ProtectionKey, VmFlags), missing core lines, values "
          "to 2^40 kB; roll-up present or failing with ENOENT/ESRCH; "
          "memory_info / memory_full_info / memory_maps (both forms) / "
          "memory_percent are compared with sums over the model.  Non-trivial "
          "= >=2 mappings sharing a path, an optional line, or roll-up absent; "
          "distinct = feature set."),
    strategy=strategy,
    run_case=run_case,
    budgets={"quick": 8000, "thorough": 60000},
    calibrate=calibrate,
    assumptions=[
        "the roll-up file holds the exact sums of the per-mapping values",
        "smaps has no blank lines",
    ],
    trusted_base=["vlib/simk.py smaps/statm renderers (calibrated against the live files)",
                  "hypothesis"],
)

if __name__ == "__main__":
    main(PROP, "props.c13_memory_maps")
