"""C20 - every platform layer keeps the same error contract and record layout.

Seven impersonated platforms (FreeBSD, OpenBSD, NetBSD, macOS, SunOS, AIX,
Windows), each in its own child process: sys.platform / os.name are set and
stub native modules are placed in sys.modules before `import psutil`.  A stub
implements every native function as "consult the plan": return a record whose
every slot holds a distinct value, or raise OSError(errno) at the n-th native
call, with the PID optionally still listed as a zombie.
"""

import errno
import json
import os
import pickle
import subprocess
import sys
import types

from hypothesis import strategies as st

from vlib.runner import HarnessError
from vlib.runner import Property
from vlib.runner import Result
from vlib.runner import Stats
from vlib.runner import Violation
from vlib.runner import from_jsonable
from vlib.runner import main
from vlib.runner import to_jsonable

PLATFORMS = {
    "freebsd": dict(sysplat="freebsd13", osname="posix", ext="_psutil_bsd", py="_psbsd"),
    "openbsd": dict(sysplat="openbsd7", osname="posix", ext="_psutil_bsd", py="_psbsd"),
    "netbsd": dict(sysplat="netbsd9", osname="posix", ext="_psutil_bsd", py="_psbsd"),
    "macos": dict(sysplat="darwin", osname="posix", ext="_psutil_osx", py="_psosx"),
    "sunos": dict(sysplat="sunos5", osname="posix", ext="_psutil_sunos", py="_pssunos"),
    "aix": dict(sysplat="aix7", osname="posix", ext="_psutil_aix", py="_psaix"),
    "windows": dict(sysplat="win32", osname="nt", ext="_psutil_windows", py="_pswindows"),
}
PLATFORM = os.environ.get("PSV_PLATFORM")
PID = 4321

ERRNOS = ["ESRCH", "ENOENT", "EPERM", "EACCES", "EIO", "EINVAL"]
WINERRORS = [5, 1314, 87, 299, 6]   # ACCESS_DENIED, PRIVILEGE_NOT_HELD, INVALID_PARAMETER, PARTIAL_COPY, INVALID_HANDLE

# ---------------------------------------------------------------------------
# Slot tables, hand-derived from the comments of the native builders:
#   arch/osx/proc.c psutil_proc_kinfo_oneshot / psutil_proc_pidtaskinfo_oneshot
#   arch/freebsd|openbsd|netbsd/proc.c + _psutil_bsd.c psutil_proc_oneshot_info
#   _psutil_sunos.c psutil_proc_basic_info / proc_cred / proc_cpu_times /
#       proc_name_and_args / proc_cpu_num / proc_num_ctx_switches
#   _psutil_aix.c   psutil_proc_basic_info / proc_cred / proc_cpu_times / proc_num_ctx_switches
#   arch/windows/proc_info.c psutil_proc_info
# record name -> ordered list of slot names as the native layer builds them
# ---------------------------------------------------------------------------

SLOTS = {
    "macos": {
        "proc_kinfo_oneshot": ["ppid", "ruid", "euid", "suid", "rgid", "egid", "sgid", "ttynr",
                               "ctime", "status", "name"],
        "proc_pidtaskinfo_oneshot": ["cpuutime", "cpustime", "rss", "vms", "pfaults", "pageins",
                                     "numthreads", "volctxsw"],
    },
    "bsd": {
        "proc_oneshot_info": ["ppid", "status", "ruid", "euid", "suid", "rgid", "egid", "sgid",
                              "ttynr", "ctime", "ctxsw_vol", "ctxsw_invol", "read_io", "write_io",
                              "utime", "stime", "ch_utime", "ch_stime", "rss", "vms", "text",
                              "data", "stack", "cpunum", "name"],
    },
    "sunos": {
        "proc_basic_info": ["ppid", "rss_kb", "vms_kb", "ctime", "nice", "nthreads", "status",
                            "ttynr", "uid", "euid", "gid", "egid"],
        "proc_cred": ["ruid", "euid", "suid", "rgid", "egid", "sgid"],
        "proc_cpu_times": ["utime", "stime", "ch_utime", "ch_stime"],
        "proc_num_ctx_switches": ["vol", "invol"],
    },
    "aix": {
        "proc_basic_info": ["ppid", "rss_kb", "vms_kb", "ctime", "nice", "nthreads", "status", "ttynr"],
        "proc_cred": ["ruid", "euid", "suid", "rgid", "egid", "sgid"],
        "proc_cpu_times": ["utime", "stime", "ch_utime", "ch_stime"],
        "proc_num_ctx_switches": ["vol", "invol"],
    },
    "windows": {
        "proc_info": ["num_handles", "ctx_switches", "user_time", "kernel_time", "create_time",
                      "num_threads", "io_rcount", "io_wcount", "io_rbytes", "io_wbytes",
                      "io_count_others", "io_bytes_others", "num_page_faults", "peak_wset", "wset",
                      "peak_paged_pool", "paged_pool", "peak_non_paged_pool", "non_paged_pool",
                      "pagefile", "peak_pagefile", "mem_private"],
    },
}

# method -> (expected tuple type name or None, [(field, record, slot, scale)])
EXPECT = {
    "macos": {
        "ppid": (None, [(None, "proc_kinfo_oneshot", "ppid", 1)]),
        "uids": ("puids", [("real", "proc_kinfo_oneshot", "ruid", 1), ("effective", "proc_kinfo_oneshot", "euid", 1),
                           ("saved", "proc_kinfo_oneshot", "suid", 1)]),
        "gids": ("pgids", [("real", "proc_kinfo_oneshot", "rgid", 1), ("effective", "proc_kinfo_oneshot", "egid", 1),
                           ("saved", "proc_kinfo_oneshot", "sgid", 1)]),
        "create_time": (None, [(None, "proc_kinfo_oneshot", "ctime", 1)]),
        "memory_info": ("pmem", [("rss", "proc_pidtaskinfo_oneshot", "rss", 1), ("vms", "proc_pidtaskinfo_oneshot", "vms", 1),
                                 ("pfaults", "proc_pidtaskinfo_oneshot", "pfaults", 1),
                                 ("pageins", "proc_pidtaskinfo_oneshot", "pageins", 1)]),
        "cpu_times": ("pcputimes", [("user", "proc_pidtaskinfo_oneshot", "cpuutime", 1),
                                    ("system", "proc_pidtaskinfo_oneshot", "cpustime", 1)]),
        "num_threads": (None, [(None, "proc_pidtaskinfo_oneshot", "numthreads", 1)]),
        "num_ctx_switches": ("pctxsw", [("voluntary", "proc_pidtaskinfo_oneshot", "volctxsw", 1)]),
    },
    "bsd": {
        "ppid": (None, [(None, "proc_oneshot_info", "ppid", 1)]),
        "uids": ("puids", [("real", "proc_oneshot_info", "ruid", 1), ("effective", "proc_oneshot_info", "euid", 1),
                           ("saved", "proc_oneshot_info", "suid", 1)]),
        "gids": ("pgids", [("real", "proc_oneshot_info", "rgid", 1), ("effective", "proc_oneshot_info", "egid", 1),
                           ("saved", "proc_oneshot_info", "sgid", 1)]),
        "create_time": (None, [(None, "proc_oneshot_info", "ctime", 1)]),
        "cpu_times": ("pcputimes", [("user", "proc_oneshot_info", "utime", 1), ("system", "proc_oneshot_info", "stime", 1),
                                    ("children_user", "proc_oneshot_info", "ch_utime", 1),
                                    ("children_system", "proc_oneshot_info", "ch_stime", 1)]),
        "memory_info": ("pmem", [("rss", "proc_oneshot_info", "rss", 1), ("vms", "proc_oneshot_info", "vms", 1),
                                 ("text", "proc_oneshot_info", "text", 1), ("data", "proc_oneshot_info", "data", 1),
                                 ("stack", "proc_oneshot_info", "stack", 1)]),
        "num_ctx_switches": ("pctxsw", [("voluntary", "proc_oneshot_info", "ctxsw_vol", 1),
                                        ("involuntary", "proc_oneshot_info", "ctxsw_invol", 1)]),
        "io_counters": ("pio", [("read_count", "proc_oneshot_info", "read_io", 1),
                                ("write_count", "proc_oneshot_info", "write_io", 1)]),
    },
    "sunos": {
        "ppid": (None, [(None, "proc_basic_info", "ppid", 1)]),
        "create_time": (None, [(None, "proc_basic_info", "ctime", 1)]),
        "num_threads": (None, [(None, "proc_basic_info", "nthreads", 1)]),
        "nice_get": (None, [(None, "proc_basic_info", "nice", 1)]),
        "memory_info": ("pmem", [("rss", "proc_basic_info", "rss_kb", 1024), ("vms", "proc_basic_info", "vms_kb", 1024)]),
        "uids": ("puids", [("real", "proc_cred", "ruid", 1), ("effective", "proc_cred", "euid", 1), ("saved", "proc_cred", "suid", 1)]),
        "gids": ("pgids", [("real", "proc_cred", "rgid", 1), ("effective", "proc_cred", "egid", 1), ("saved", "proc_cred", "sgid", 1)]),
        # /proc/<pid>/cred refused (EACCES): real / effective ids come from the psinfo record
        "denied:uids": ("puids", [("real", "proc_basic_info", "uid", 1), ("effective", "proc_basic_info", "euid", 1)]),
        "denied:gids": ("pgids", [("real", "proc_basic_info", "gid", 1), ("effective", "proc_basic_info", "egid", 1)]),
        "cpu_times": ("pcputimes", [("user", "proc_cpu_times", "utime", 1), ("system", "proc_cpu_times", "stime", 1),
                                    ("children_user", "proc_cpu_times", "ch_utime", 1),
                                    ("children_system", "proc_cpu_times", "ch_stime", 1)]),
        "num_ctx_switches": ("pctxsw", [("voluntary", "proc_num_ctx_switches", "vol", 1),
                                        ("involuntary", "proc_num_ctx_switches", "invol", 1)]),
    },
    "aix": {
        "ppid": (None, [(None, "proc_basic_info", "ppid", 1)]),
        "create_time": (None, [(None, "proc_basic_info", "ctime", 1)]),
        "num_threads": (None, [(None, "proc_basic_info", "nthreads", 1)]),
        "memory_info": ("pmem", [("rss", "proc_basic_info", "rss_kb", 1024), ("vms", "proc_basic_info", "vms_kb", 1024)]),
        "uids": ("puids", [("real", "proc_cred", "ruid", 1), ("effective", "proc_cred", "euid", 1), ("saved", "proc_cred", "suid", 1)]),
        "gids": ("pgids", [("real", "proc_cred", "rgid", 1), ("effective", "proc_cred", "egid", 1), ("saved", "proc_cred", "sgid", 1)]),
        "cpu_times": ("pcputimes", [("user", "proc_cpu_times", "utime", 1), ("system", "proc_cpu_times", "stime", 1),
                                    ("children_user", "proc_cpu_times", "ch_utime", 1),
                                    ("children_system", "proc_cpu_times", "ch_stime", 1)]),
        "num_ctx_switches": ("pctxsw", [("voluntary", "proc_num_ctx_switches", "vol", 1),
                                        ("involuntary", "proc_num_ctx_switches", "invol", 1)]),
    },
    "windows": {
        "num_threads": (None, [(None, "proc_info", "num_threads", 1)]),
        "num_ctx_switches": ("pctxsw", [("voluntary", "proc_info", "ctx_switches", 1)]),
        # fall-back paths taken when the primary native call is denied
        "denied:num_handles": (None, [(None, "proc_info", "num_handles", 1)]),
        "denied:create_time": (None, [(None, "proc_info", "create_time", 1)]),
        "denied:cpu_times": ("pcputimes", [("user", "proc_info", "user_time", 1),
                                           ("system", "proc_info", "kernel_time", 1)]),
        "denied:io_counters": ("pio", [("read_count", "proc_info", "io_rcount", 1),
                                       ("write_count", "proc_info", "io_wcount", 1),
                                       ("read_bytes", "proc_info", "io_rbytes", 1),
                                       ("write_bytes", "proc_info", "io_wbytes", 1),
                                       ("other_count", "proc_info", "io_count_others", 1),
                                       ("other_bytes", "proc_info", "io_bytes_others", 1)]),
        "denied:memory_info": ("pmem", [("rss", "proc_info", "wset", 1), ("vms", "proc_info", "pagefile", 1),
                                        ("num_page_faults", "proc_info", "num_page_faults", 1),
                                        ("peak_wset", "proc_info", "peak_wset", 1), ("wset", "proc_info", "wset", 1),
                                        ("peak_paged_pool", "proc_info", "peak_paged_pool", 1),
                                        ("paged_pool", "proc_info", "paged_pool", 1),
                                        ("peak_nonpaged_pool", "proc_info", "peak_non_paged_pool", 1),
                                        ("nonpaged_pool", "proc_info", "non_paged_pool", 1),
                                        ("pagefile", "proc_info", "pagefile", 1),
                                        ("peak_pagefile", "proc_info", "peak_pagefile", 1),
                                        ("private", "proc_info", "mem_private", 1)]),
    },
}

# documented availability of public names (docs/index.rst "Availability:" notes
# and psutil/tests/test_contracts.py)
AVAILABILITY = {
    "cpu_freq": {"linux", "macos", "windows", "freebsd", "openbsd"},
    "sensors_temperatures": {"linux", "freebsd"},
    "sensors_fans": {"linux"},
    "sensors_battery": {"linux", "windows", "freebsd", "macos"},
    "win_service_iter": {"windows"},
    "win_service_get": {"windows"},
    "PROCFS_PATH": {"linux", "sunos", "aix"},
    "RLIMIT_NOFILE": {"linux", "freebsd"},
    "RLIM_INFINITY": {"linux", "freebsd"},
    "IOPRIO_CLASS_NONE": {"linux"},
    "IOPRIO_NORMAL": {"windows"},
    "ABOVE_NORMAL_PRIORITY_CLASS": {"windows"},
    "CONN_DELETE_TCB": {"windows"},
    "CONN_IDLE": {"sunos"},
    "CONN_BOUND": {"sunos"},
}
PROC_AVAILABILITY = {
    "cpu_affinity": {"linux", "windows", "freebsd"},
    "cpu_num": {"linux", "freebsd", "sunos"},
    "environ": {"linux", "macos", "windows", "sunos", "freebsd", "openbsd", "netbsd", "aix"},
    "gids": {"freebsd", "openbsd", "netbsd", "macos", "sunos", "aix", "linux"},
    "uids": {"freebsd", "openbsd", "netbsd", "macos", "sunos", "aix", "linux"},
    "terminal": {"freebsd", "openbsd", "netbsd", "macos", "sunos", "aix", "linux"},
    "num_fds": {"freebsd", "openbsd", "netbsd", "macos", "sunos", "aix", "linux"},
    "io_counters": {"linux", "freebsd", "openbsd", "netbsd", "windows", "aix"},
    "ionice": {"linux", "windows"},
    "memory_maps": {"linux", "windows", "freebsd", "sunos"},
    "num_handles": {"windows"},
    "rlimit": {"linux", "freebsd"},
}


# ---------------------------------------------------------------------------
# child side: stubs
# ---------------------------------------------------------------------------


class Plan:
    def __init__(self):
        self.reset()

    def reset(self):
        self.calls = 0
        self.raise_at = None
        self.exc = None
        self.zombie = False
        self.zombie_sdead = False
        self.log = []
        self.pid0_listed = False
        self.pid_exists = True
        self.os_exc = None
        self.os_exc2 = None
        self.os_hits = 0
        self.os_stat_hits = 0
        self.exc2 = None
        self.exc2_hits = 0


PLAN = Plan()
_CONST = {}


WIN_ERRORS = {"ERROR_ACCESS_DENIED": 5, "ERROR_PRIVILEGE_NOT_HELD": 1314, "ERROR_INVALID_NAME": 123,
              "ERROR_SERVICE_DOES_NOT_EXIST": 1060, "ERROR_PARTIAL_COPY": 299}


def const(mod, name):
    if name in WIN_ERRORS:
        return WIN_ERRORS[name]
    key = (mod, name)
    if key not in _CONST:
        _CONST[key] = 100 + len(_CONST)
    return _CONST[key]


def slot_value(record, i):
    """Distinct value per (record, slot)."""
    h = sum(ord(c) for c in record) % 89
    return 1000 * (h + 1) + 7 * i + 3


def family():
    return {"freebsd": "bsd", "openbsd": "bsd", "netbsd": "bsd"}.get(PLATFORM, PLATFORM)


class StubExt(types.ModuleType):
    def __init__(self, name, posix=False):
        types.ModuleType.__init__(self, name)
        self.__dict__["_posix"] = posix
        self.__dict__["version"] = 700
        self.__dict__["__file__"] = "<stub %s>" % name

    def __dir__(self):
        base = ["version"]
        if self._posix and PLATFORM in ("freebsd", "linux"):
            base += ["RLIMIT_NOFILE", "RLIMIT_AS", "RLIMIT_CORE", "RLIM_INFINITY"]
        return base

    def __getattr__(self, name):
        if name.startswith("__"):
            raise AttributeError(name)
        if name.isupper() or (name[:1].isupper() and not name.islower() and "_" in name and name.upper() == name):
            return const(self.__name__, name)
        if name[:1].isupper():
            # CamelCase native functions on Windows (QueryDosDevice...)
            pass

        def fn(*args, **kw):
            return native_call(self.__name__, name, args)

        fn.__name__ = name
        return fn


def make_oserror(code):
    if isinstance(code, int):   # Windows error code
        if code in (5, 1314):
            e = OSError(errno.EACCES if code == 5 else errno.EINVAL, "winerror %d" % code)
        else:
            e = OSError(errno.EINVAL, "winerror %d" % code)
        e = type(e)(e.errno, e.strerror)
        try:
            e.winerror = code
        except AttributeError:
            pass
        return e
    e = OSError(getattr(errno, code), os.strerror(getattr(errno, code)))
    if PLATFORM == "windows":
        try:
            e.winerror = 0
        except AttributeError:
            pass
    return e


class WinOSError(OSError):
    winerror = 0


def native_call(mod, name, args):
    idx = PLAN.calls
    PLAN.calls += 1
    PLAN.log.append(name)
    if PLAN.raise_at is not None and idx == PLAN.raise_at:
        raise PLAN.exc
    if PLAN.raise_at is not None and idx > PLAN.raise_at and PLAN.exc2 is not None:
        # a retried native call fails differently the second time
        PLAN.exc2_hits += 1
        raise PLAN.exc2
    return default_return(mod, name, args)


def record(name):
    fam = family()
    slots = SLOTS.get(fam, {}).get(name)
    if slots is None:
        return None
    vals = [slot_value(name, i) for i in range(len(slots))]
    if "status" in slots:
        i = slots.index("status")
        # OpenBSD lists a dead-but-unreaped process as SDEAD (SZOMB is
        # unused there, psutil/_psbsd.py PROC_STATUSES): both mean "zombie"
        zname = "SDEAD" if (PLATFORM == "openbsd" and getattr(PLAN, "zombie_sdead", False)) else "SZOMB"
        vals[i] = const("psutil." + PLATFORMS[PLATFORM]["ext"], zname) \
            if PLAN.zombie else const("x", "SRUN-ish")
    if "name" in slots:
        vals[slots.index("name")] = "stubproc"
    if "ttynr" in slots:
        vals[slots.index("ttynr")] = -77
    return tuple(vals)


def default_return(mod, name, args):
    rec = record(name)
    if rec is not None:
        return rec
    if name == "getpagesize":
        return 4096
    if name == "pids":
        return [0, 1, PID] if PLAN.pid0_listed else [1, PID]
    if name == "pid_exists":
        return PLAN.pid_exists
    if name in ("proc_name",):
        return "stubproc"
    if name == "proc_name_and_args":
        return ("stubproc", "stubproc --arg")
    if name in ("proc_exe", "proc_cwd"):
        return "/stub/path"
    if name in ("proc_cmdline",):
        return ["stubproc", "--arg"]
    if name == "proc_environ":
        return {"A": "1"} if PLATFORM not in ("macos", "windows") else "A=1\0\0"
    if name in ("proc_num_threads", "proc_num_fds", "proc_num_handles", "proc_cpu_num", "proc_priority_get",
                "proc_io_priority_get", "getpriority", "proc_memory_uss", "cpu_count_logical",
                "cpu_count_cores", "boot_time", "proc_username"):
        return 3
    if name == "per_cpu_times":
        # four CPUs (cpu_affinity_set() validates its argument against them)
        width = 5 if family() in ("bsd", "windows") else 4
        return [tuple(float(i + j) for j in range(width)) for i in range(4)]
    if name in ("proc_threads", "proc_open_files", "proc_net_connections", "net_connections",
                "proc_memory_maps", "proc_cpu_affinity_get", "net_if_addrs", "disk_partitions", "users",
                "proc_getrlimit"):
        return []
    if name in ("setpriority", "proc_priority_set", "proc_io_priority_set", "proc_cpu_affinity_set",
                "proc_setrlimit", "proc_suspend_or_resume", "proc_kill", "set_debug"):
        return None
    if name in ("ppid_map", "net_io_counters", "disk_io_counters", "net_if_stats"):
        return {}
    # unknown native: a generic 4-tuple of distinct numbers
    return tuple(slot_value(name, i) for i in range(4))


class OsProxy:
    """Stands in for `os` inside a platform module: readlink / stat / lstat /
    listdir on a /proc/<PID>/... path consult the plan (Python-level OS calls
    are fault points too on the procfs based layers)."""

    def __init__(self, real):
        self._real = real
        self.path = real.path

    def __getattr__(self, name):
        return getattr(self._real, name)

    def _hit(self, name, path):
        if isinstance(path, bytes):
            path = path.decode()
        if isinstance(path, str) and (path.startswith(f"/proc/{PID}/") or path == f"/proc/{PID}"):
            PLAN.log.append("os." + name)
            if name in ("stat", "lstat") and getattr(PLAN, "os_exc2", None) is not None:
                # two-step fault: items vanish (first errno), then the
                # follow-up "is the process still there" stat fails differently
                PLAN.os_hits += 1
                PLAN.os_stat_hits += 1
                raise PLAN.os_exc2
            if PLAN.os_exc is not None:
                PLAN.os_hits += 1
                raise PLAN.os_exc

    def readlink(self, path, *a, **k):
        self._hit("readlink", path)
        return self._real.readlink(path, *a, **k)

    def stat(self, path, *a, **k):
        self._hit("stat", path)
        return self._real.stat(path, *a, **k)

    def lstat(self, path, *a, **k):
        self._hit("lstat", path)
        return self._real.lstat(path, *a, **k)

    def listdir(self, path="."):
        self._hit("listdir", path)
        if path in ("/proc", b"/proc") and PLATFORM in ("sunos", "aix"):
            # the process table of the impersonated system (pids() lists the
            # procfs root there)
            names = ["1", str(PID)] + (["0"] if PLAN.pid0_listed else [])
            return [n.encode() for n in names] if isinstance(path, bytes) else names
        return self._real.listdir(path)


def install_platform():
    info = PLATFORMS[PLATFORM]
    sys.platform = info["sysplat"]
    os.name = info["osname"]
    import psutil._common  # noqa: F401  (must not be imported before; checked below)


def boot():
    """Set the platform, install stubs, import psutil."""
    info = PLATFORMS[PLATFORM]
    if "psutil" in sys.modules:
        raise HarnessError("psutil imported before impersonation")
    sys.platform = info["sysplat"]
    os.name = info["osname"]
    sys.modules["psutil." + info["ext"]] = StubExt("psutil." + info["ext"])
    if info["osname"] == "posix":
        sys.modules["psutil._psutil_posix"] = StubExt("psutil._psutil_posix", posix=True)
    try:
        import psutil
    finally:
        # the flags (WINDOWS, POSIX, ...) are computed at import time; the
        # standard library must keep seeing the real os.name afterwards
        os.name = "posix"

    plat = sys.modules["psutil." + info["py"]]
    if psutil._psplatform is not plat:
        raise HarnessError(f"impersonation failed: psutil._psplatform is {psutil._psplatform}")
    return psutil, plat


def process_methods(plat):
    skip = {"wait", "oneshot_enter", "oneshot_exit", "oneshot", "send_signal", "kill", "suspend", "resume"}
    out = []
    for name in sorted(dir(plat.Process)):
        if name.startswith("_") or name in skip:
            continue
        attr = getattr(plat.Process, name)
        # a public class attribute that is not callable (a decorator that
        # returned None, say) is still a method the platform promises: calling
        # it fails and is judged like any other outcome
        if callable(attr) or (name in vars(plat.Process)
                              and type(attr).__name__ not in ("member_descriptor", "getset_descriptor",
                                                              "property")):
            out.append(name)
    return out


ARGS = {
    "net_connections": ("inet",), "nice_set": (5,), "rlimit": (1,), "cpu_affinity_set": ([0],),
    "ionice_set": (2, 0), "memory_maps": (), "environ": (),
}


def strategy(tier):
    fault = st.one_of(st.sampled_from(ERRNOS), st.sampled_from(WINERRORS) if PLATFORM == "windows"
                      else st.sampled_from(ERRNOS))
    fault_case = st.fixed_dictionaries(dict(
        kind=st.just("fault"), method=st.integers(0, 60), err=fault,
        at=st.sampled_from([0, 0, 0, 1, 2]), zombie=st.booleans(),
        sdead=st.booleans(),
        cached_name=st.sampled_from([None, "cached-name"]), pid=st.sampled_from([PID, PID, 0]),
        pid0_listed=st.booleans()))
    procfs_case = st.fixed_dictionaries(dict(
        kind=st.just("procfs-fault"), method=st.integers(0, 60), err=st.sampled_from(ERRNOS),
        # second errno, raised by stat()/lstat() of /proc/<pid>[/...] only
        # (items vanish with ENOENT, then the liveness check fails otherwise)
        err2=st.one_of(st.none(), st.none(), st.sampled_from(ERRNOS)),
        zombie=st.booleans(), cached_name=st.sampled_from([None, "cached-name"])))
    extra = [procfs_case, procfs_case] if PLATFORM in ("netbsd", "sunos", "aix") else []
    if PLATFORM in ("sunos", "aix"):
        two_step_case = st.fixed_dictionaries(dict(
            kind=st.just("procfs-fault"), method=st.integers(0, 60), err=st.just("ENOENT"),
            err2=st.sampled_from(ERRNOS), zombie=st.booleans(),
            cached_name=st.sampled_from([None, "cached-name"])))
        extra += [two_step_case, two_step_case]
    if PLATFORM == "windows":
        retry_case = st.fixed_dictionaries(dict(
            kind=st.just("fault"), method=st.integers(0, 60), err=st.just(299),
            then=st.sampled_from(ERRNOS + [5, 1314, 87, 6]),
            at=st.sampled_from([0, 0, 1, 2]), zombie=st.just(False), sdead=st.just(False),
            cached_name=st.sampled_from([None, "cached-name"]), pid=st.just(PID), pid0_listed=st.booleans()))
        extra += [retry_case]
    return st.one_of(
        *extra,
        fault_case, fault_case, fault_case, fault_case,
        st.fixed_dictionaries(dict(kind=st.just("slots"), method=st.integers(0, 60),
                                   oneshot=st.booleans())),
        st.fixed_dictionaries(dict(
            kind=st.just("fault"), method=st.integers(0, 60), err=fault,
            at=st.sampled_from([0, 0, 0, 1, 2]), zombie=st.booleans(),
            sdead=st.booleans(),
            cached_name=st.sampled_from([None, "cached-name"]), pid=st.sampled_from([PID, PID, 0]),
            pid0_listed=st.booleans())),
        st.fixed_dictionaries(dict(kind=st.just("slots"), method=st.integers(0, 60),
                                   oneshot=st.booleans())),
        st.fixed_dictionaries(dict(
            kind=st.just("frontend"),
            addrs=st.lists(st.tuples(
                st.sampled_from(["eth0", "lo", "Ethernet 2"]),
                st.sampled_from(["inet", "inet6", "link"]),
                st.sampled_from(["192.168.1.10", "10.0.0.1", "fe80::1", "2001:db8::5", "00:11:22", "00-11-22-33",
                                 "aa:bb:cc:dd:ee:ff", ""]),
                st.sampled_from([None, "255.255.255.0", "255.0.0.0", "ffff:ffff:ffff:ffff::", "bogus", ""])),
                max_size=5))),
        st.fixed_dictionaries(dict(kind=st.just("names"))),
    )


_BOOT = {}


def booted():
    if "psutil" not in _BOOT:
        _BOOT["psutil"], _BOOT["plat"] = boot()
        _BOOT["methods"] = process_methods(_BOOT["plat"])
    return _BOOT["psutil"], _BOOT["plat"], _BOOT["methods"]


def nsp_errnos():
    if PLATFORM in ("sunos", "aix"):
        return {"ESRCH", "ENOENT"}
    return {"ESRCH"}


def consume(val):
    """Some layers hand back a generator (Windows memory_maps()): the native
    call - and its failure - happens when the front end iterates it."""
    import types
    if isinstance(val, types.GeneratorType):
        return list(val)
    return val


def run_child_case(case):
    import socket

    psutil, plat, methods = booted()
    kind = case["kind"]
    fam = family()
    if kind == "fault":
        m = methods[case["method"] % len(methods)]
        PLAN.reset()
        PLAN.zombie = case["zombie"] and PLATFORM != "windows"
        PLAN.zombie_sdead = bool(case.get("sdead"))
        PLAN.pid0_listed = case["pid0_listed"]
        # the PID is gone only for a "no such process" failure without zombie
        nsp_class = (isinstance(case["err"], str) and case["err"] in nsp_errnos())
        PLAN.pid_exists = PLAN.zombie or not nsp_class
        PLAN.raise_at = case["at"]
        PLAN.exc = make_oserror(case["err"])
        then = case.get("then")
        if then is not None and PLATFORM == "windows" and case["err"] == 299:
            # Windows retries a native call that failed with
            # ERROR_PARTIAL_COPY: the retry fails with another error, which
            # is then the failure the method has to report
            PLAN.exc2 = make_oserror(then)
            if then == "ESRCH":
                PLAN.pid_exists = False
        pid = case["pid"]
        proc = plat.Process(pid)
        proc._name = case["cached_name"]
        # procfs-based pid_exists on SunOS / AIX
        restore = []
        if PLATFORM == "sunos":
            import psutil._psposix as PX
            restore.append((PX, "pid_exists", PX.pid_exists))
            restore.append((plat, "pid_exists", plat.pid_exists))
            plat.pid_exists = lambda p_: PLAN.pid_exists
            # pids() lists the procfs root there: the impersonated table
            restore.append((plat, "pids", plat.pids))
            plat.pids = lambda: [0, 1, PID] if PLAN.pid0_listed else [1, PID]
        if PLATFORM == "aix":
            restore.append((plat, "pid_exists", plat.pid_exists))
            plat.pid_exists = lambda p_: PLAN.pid_exists
        try:
            try:
                val = consume(getattr(proc, m)(*ARGS.get(m, ())))
                out = ("value", val)
            except BaseException as e:  # noqa: BLE001
                out = ("exc", e)
        finally:
            for mod, name, old in restore:
                setattr(mod, name, old)
        raised = PLAN.calls > case["at"]
        desc = (f"{PLATFORM} Process({pid}).{m}() with {case['err']} at native call {case['at']} "
                f"(native calls made: {PLAN.log[:6]}), zombie={PLAN.zombie}, cached name {case['cached_name']!r}")
        if not raised:
            # the method made fewer native calls: the fault never fired
            return Result([f"{PLATFORM}:fault-not-reached"], None)
        err = case["err"]
        if PLAN.exc2_hits:
            err = then
            PLAN.exc = PLAN.exc2
            desc += f"; the retry after ERROR_PARTIAL_COPY failed with {then}"
        probe = {"macos": "proc_kinfo_oneshot", "bsd": "proc_oneshot_info"}.get(fam)
        if (probe is not None and PLAN.log[case["at"]] == probe and PLAN.log.count(probe) == 1
                and len(PLAN.log) == case["at"] + 1 and case["at"] == 0
                and m in ("exe", "cwd", "memory_maps", "open_files", "num_fds")):
            # the only native call made was the zombie probe of the error
            # path: the method's own failure came from a non-native source
            # (os.readlink on the real file system), not from the plan
            return Result([f"{PLATFORM}:probe-itself-failed"], None)
        if PLATFORM == "windows" and m == "ppid":
            # only a system-wide native call (ppid_map) is made: its failure is
            # not a failure about this process; crash-freedom only
            return Result(["windows:system-wide-native-call"], None)
        winperm = PLATFORM == "windows" and (err in (5, 1314) or err in ("EPERM", "EACCES"))
        if out[0] == "value":
            # documented fall-backs swallow some failures; count, do not judge
            return Result([f"{PLATFORM}:fault-swallowed-by-fallback"], f"{PLATFORM}|{m}|{err}|fallback-value")
        e = out[1]
        if isinstance(err, str) and err in nsp_errnos() or (PLATFORM == "windows" and err == "ESRCH"):
            want = "ZombieProcess" if PLAN.zombie else "NoSuchProcess"
            cls = type(e).__name__
            probe = {"macos": "proc_kinfo_oneshot", "bsd": "proc_oneshot_info"}.get(fam)
            if (PLAN.zombie and cls == "NoSuchProcess" and probe is not None
                    and PLAN.log[case["at"]] == probe and PLAN.log.count(probe) == 1
                    and len(PLAN.log) == case["at"] + 1):
                # the faulted native call was the zombie probe itself (the
                # method's own failure came from a non-native source): psutil
                # cannot know that the PID is a zombie
                return Result([f"{PLATFORM}:probe-itself-failed"], None)
            ok = cls == want or (cls == "AccessDenied" and m == "nice_set" and PLATFORM == "sunos")
            if PLATFORM == "netbsd" and m in ("exe",) and cls in ("NoSuchProcess", "ZombieProcess"):
                ok = cls == want
            if not ok:
                raise Violation("nsp-contract", f"{desc}: raised {e!r}, expected {want}")
            if getattr(e, "pid", None) != pid or (getattr(e, "name", None) != case["cached_name"]):
                raise Violation("error-fields", f"{desc}: {e!r} carries pid={getattr(e, 'pid', None)} "
                                f"name={getattr(e, 'name', None)!r}")
            return Result([f"{PLATFORM}:nsp"], f"{PLATFORM}|{m}|{err}|{want}")
        if (isinstance(err, str) and err in ("EPERM", "EACCES")) or winperm:
            if type(e).__name__ != "AccessDenied":
                raise Violation("access-contract", f"{desc}: raised {e!r}, expected AccessDenied")
            if getattr(e, "pid", None) != pid or getattr(e, "name", None) != case["cached_name"]:
                raise Violation("error-fields", f"{desc}: {e!r} carries pid={getattr(e, 'pid', None)} "
                                f"name={getattr(e, 'name', None)!r}")
            return Result([f"{PLATFORM}:access-denied"], f"{PLATFORM}|{m}|{err}|AccessDenied")
        # any other error propagates unchanged
        pid0_exists = PLAN.pid0_listed or PLATFORM == "openbsd"   # OpenBSD always lists PID 0
        if pid == 0 and PLATFORM in ("freebsd", "openbsd", "netbsd", "sunos") and pid0_exists:
            # the documented exception: an unexplained OS error on the
            # existing PID 0 is reported as AccessDenied
            if type(e).__name__ == "AccessDenied":
                return Result([f"{PLATFORM}:pid0-exemption"], f"{PLATFORM}|{m}|{err}|pid0-AccessDenied")
            if not (PLATFORM == "netbsd" and m == "cmdline" and err == "EINVAL") and e is PLAN.exc:
                raise Violation("pid0-contract", f"{desc}: PID 0 is listed, raised {e!r}, expected AccessDenied")
        if PLATFORM == "netbsd" and m == "cmdline" and err == "EINVAL":
            return Result(["netbsd:cmdline-einval-workaround"], None)
        if PLATFORM == "windows" and err == 299 and type(e).__name__ == "AccessDenied":
            return Result(["windows:partial-copy-workaround"], f"windows|{m}|299|AccessDenied")
        if e is not PLAN.exc:
            if isinstance(e, (psutil.Error,)):
                raise Violation("other-error-converted",
                                f"{desc}: raised {e!r}; an unrelated OS error must propagate unchanged")
            if isinstance(e, (AttributeError, TypeError, KeyError, IndexError)):
                raise Violation("other-error-crashes", f"{desc}: raised {e!r}")
            same_os_error = (isinstance(e, OSError) and e.errno == getattr(PLAN.exc, "errno", None)
                             and getattr(e, "winerror", None) == getattr(PLAN.exc, "winerror", None))
            if not same_os_error:
                raise Violation("other-error-converted",
                                f"{desc}: raised {e!r} instead of letting {PLAN.exc!r} through unchanged")
        return Result([f"{PLATFORM}:propagated"], f"{PLATFORM}|{m}|{err}|propagated")

    if kind == "procfs-fault":
        m = methods[case["method"] % len(methods)]
        PLAN.reset()
        PLAN.zombie = case["zombie"]
        err = case["err"]
        nsp_class = err in ("ESRCH", "ENOENT")
        PLAN.pid_exists = PLAN.zombie or not nsp_class
        PLAN.os_exc = make_oserror(err)
        err2 = case.get("err2")
        two_step = err2 is not None and err == "ENOENT" and PLATFORM in ("sunos", "aix")
        if two_step:
            # only items of the process vanish; the process itself is still
            # listed, and the liveness stat() fails with the second errno
            PLAN.os_exc2 = make_oserror(err2)
            PLAN.pid_exists = True
        proc = plat.Process(PID)
        proc._name = case["cached_name"]
        saved_os = plat.os
        plat.os = OsProxy(saved_os)
        restore = []
        if PLATFORM in ("sunos", "aix"):
            restore.append((plat, "pid_exists", plat.pid_exists))
            plat.pid_exists = lambda p_: PLAN.pid_exists
        try:
            try:
                val = consume(getattr(proc, m)(*ARGS.get(m, ())))
                out = ("value", val)
            except BaseException as e:  # noqa: BLE001
                out = ("exc", e)
        finally:
            plat.os = saved_os
            for mod, name, old in restore:
                setattr(mod, name, old)
        if PLAN.os_hits == 0:
            return Result([f"{PLATFORM}:procfs-fault-not-reached"], None)
        desc = (f"{PLATFORM} Process({PID}).{m}() with {err} from a Python-level procfs access "
                f"({[x for x in PLAN.log if x.startswith('os.')][:3]}), zombie={PLAN.zombie}, "
                f"cached name {case['cached_name']!r}")
        if out[0] == "value":
            return Result([f"{PLATFORM}:procfs-fault-swallowed"], f"{PLATFORM}|{m}|procfs:{err}|value")
        e = out[1]
        cls = type(e).__name__
        if two_step:
            desc += f"; items vanish with ENOENT, stat() of /proc/<pid> fails with {err2}, the PID stays listed"
            if cls == "NoSuchProcess":
                raise Violation("procfs-nsp-contract", f"{desc}: raised {e!r} for a process that is still listed")
            if PLAN.os_stat_hits and (e is PLAN.os_exc2 or getattr(e, "__cause__", None) is PLAN.os_exc2):
                # the failure that ended the call is the second one
                err = err2
                nsp_class = err in ("ESRCH", "ENOENT")
        if nsp_class:
            want = "ZombieProcess" if (PLAN.zombie or two_step) else "NoSuchProcess"
            if cls != want:
                raise Violation("procfs-nsp-contract", f"{desc}: raised {e!r}, expected {want}")
        elif err in ("EPERM", "EACCES"):
            if cls != "AccessDenied":
                raise Violation("procfs-access-contract", f"{desc}: raised {e!r}, expected AccessDenied")
        else:
            if e is not PLAN.os_exc and isinstance(e, psutil.Error):
                raise Violation("procfs-other-error-converted", f"{desc}: raised {e!r}")
            return Result([f"{PLATFORM}:procfs-propagated"], f"{PLATFORM}|{m}|procfs:{err}|propagated")
        if getattr(e, "pid", None) != PID or getattr(e, "name", None) != case["cached_name"]:
            raise Violation("error-fields", f"{desc}: {e!r} carries pid={getattr(e, 'pid', None)} "
                            f"name={getattr(e, 'name', None)!r}")
        return Result([f"{PLATFORM}:procfs-{cls}"], f"{PLATFORM}|{m}|procfs:{err}|{cls}")

    if kind == "slots":
        table = EXPECT.get(fam, {})
        names = sorted(table)
        if not names:
            return Result([f"{PLATFORM}:no-slot-table"])
        key = names[case["method"] % len(names)]
        m = key.split(":")[-1]
        if not hasattr(plat.Process, m):
            return Result([f"{PLATFORM}:method-absent"])
        PLAN.reset()
        if key.startswith("denied:"):
            PLAN.raise_at = 0
            PLAN.exc = make_oserror(5)
        proc = plat.Process(PID)
        if case["oneshot"]:
            proc.oneshot_enter()
        try:
            val = getattr(proc, m)()
        except BaseException as e:  # noqa: BLE001
            import traceback
            raise Violation("slots-exception", f"{PLATFORM} {m}(): {e!r} " + traceback.format_exc()[-400:]) from None
        finally:
            if case["oneshot"]:
                proc.oneshot_exit()
        tname, fields = table[key]
        if tname is not None and type(val).__name__ != tname:
            raise Violation("tuple-type", f"{PLATFORM} {m}() returned {type(val).__name__}, documented {tname}")
        for field, rec, slot, scale in fields:
            idx = SLOTS[fam][rec].index(slot)
            want = slot_value(rec, idx) * scale
            got = val if field is None else getattr(val, field)
            if got != want:
                raise Violation("slot-mapping",
                                f"{PLATFORM} {m}(){'.' + field if field else ''} = {got!r}; the native "
                                f"record {rec} holds {want!r} in slot {idx} ({slot})")
        return Result([f"{PLATFORM}:slots"], f"{PLATFORM}|slots|{m}|oneshot={case['oneshot']}")

    if kind == "frontend":
        raw = []
        exp = {}
        fam_map = {"inet": socket.AF_INET, "inet6": socket.AF_INET6, "link": -1 if PLATFORM == "windows"
                   else int(plat.AF_LINK)}
        import ipaddress
        for nic, f, addr, mask in case["addrs"]:
            fnum = fam_map[f]
            raw.append((nic, fnum, addr, mask, None, None))
        PLAN.reset()
        orig = plat.net_if_addrs
        plat.net_if_addrs = lambda: list(raw)
        try:
            got = psutil.net_if_addrs()
        except BaseException as e:  # noqa: BLE001
            raise Violation("net_if_addrs-exception", repr(e)) from None
        finally:
            plat.net_if_addrs = orig
        rows = [r for lst in got.values() for r in lst]
        if len(rows) != len(raw):
            raise Violation("net_if_addrs-count", f"{rows} from {raw}")
        sep = ":" if PLATFORM != "windows" else "-"
        for nic, f, addr, mask in case["addrs"]:
            cands = [r for r in got.get(nic, []) if r.netmask == mask]
            if f == "link":
                want = addr
                while want.count(sep) < 5:
                    want += f"{sep}00"
                if not any(r.address == want and r.family == plat.AF_LINK for r in cands):
                    raise Violation("mac-padding", f"{PLATFORM}: MAC {addr!r} -> {[r.address for r in cands]}, expected {want!r}")
            elif PLATFORM == "windows" and addr and mask:
                try:
                    net = (ipaddress.IPv4Network if f == "inet" else ipaddress.IPv6Network)(f"{addr}/{mask}", strict=False)
                    want_b = str(net.broadcast_address)
                except ValueError:
                    want_b = None
                if want_b is not None and not any(r.address == addr and r.broadcast == want_b for r in cands):
                    raise Violation("windows-broadcast",
                                    f"net_if_addrs(): {addr}/{mask} broadcast should be {want_b}, got "
                                    f"{[(r.address, r.broadcast) for r in cands]}")
        return Result([f"{PLATFORM}:frontend"], f"{PLATFORM}|frontend|{len(raw)}")

    if kind == "names":
        plat_key = PLATFORM
        for name, where in AVAILABILITY.items():
            have = hasattr(psutil, name)
            if have != (plat_key in where):
                raise Violation("names", f"{PLATFORM}: psutil.{name} {'present' if have else 'missing'}, "
                                f"documented for {sorted(where)}")
            if have and name not in psutil.__all__ and not name.startswith("RLIM"):
                raise Violation("names-all", f"{PLATFORM}: {name} missing from __all__")
        for name, where in PROC_AVAILABILITY.items():
            have = hasattr(psutil.Process, name)
            if have != (plat_key in where):
                raise Violation("names-process", f"{PLATFORM}: Process.{name} {'present' if have else 'missing'}, "
                                f"documented for {sorted(where)}")
        flags = {"LINUX": False, "WINDOWS": PLATFORM == "windows", "MACOS": PLATFORM == "macos",
                 "FREEBSD": PLATFORM == "freebsd", "OPENBSD": PLATFORM == "openbsd", "NETBSD": PLATFORM == "netbsd",
                 "BSD": fam == "bsd", "SUNOS": PLATFORM == "sunos", "AIX": PLATFORM == "aix",
                 "POSIX": PLATFORM != "windows"}
        for name, want in flags.items():
            if getattr(psutil, name) is not want:
                raise Violation("names-flags", f"{PLATFORM}: psutil.{name} is {getattr(psutil, name)}")
        return Result([f"{PLATFORM}:names"], f"{PLATFORM}|names")
    raise HarnessError(kind)


# ---------------------------------------------------------------------------
# parent side
# ---------------------------------------------------------------------------


def _child_env(platform):
    env = dict(os.environ)
    env["PSV_PLATFORM"] = platform
    env["PYTHONHASHSEED"] = "0"
    return env


def run_case(case):
    if PLATFORM:
        return run_child_case(case)
    platform = case.get("platform")
    if platform is None:
        raise HarnessError("replay case without platform")
    r = subprocess.run([os.environ.get("VERIF_PY", "/venv/bin/python"), "-m", "props.c20_platforms",
                        "--child-case", json.dumps(to_jsonable(case))],
                       env=_child_env(platform), capture_output=True, text=True,
                       cwd=os.environ.get("VERIF_DIR", "/verif"))
    lines = [ln for ln in r.stdout.strip().splitlines() if ln.startswith("{")]
    if r.returncode == 0 and lines:
        d = json.loads(lines[-1])
        return Result(d["labels"], d["nontrivial"])
    if r.returncode == 3 and lines:
        d = json.loads(lines[-1])
        raise Violation(d["clause"], d["detail"])
    raise HarnessError(f"c20 child failed rc={r.returncode}: {r.stderr[-1500:]}")


def search(prop, prop_mod, tier, seed, budget, nshards):
    scratch = os.environ.get("VERIF_SCRATCH", "/var/tmp")
    per = max(1, budget // len(PLATFORMS))
    procs = []
    for platform in PLATFORMS:
        out = os.path.join(scratch, f"c20-out-{platform}")
        p = subprocess.Popen([os.environ.get("VERIF_PY", "/venv/bin/python"), "-m", "props.c20_platforms",
                              "--child-search", tier, str(seed), str(per), out],
                             env=_child_env(platform), stdout=subprocess.DEVNULL, stderr=subprocess.PIPE,
                             cwd=os.environ.get("VERIF_DIR", "/verif"))
        procs.append((platform, p, out))
    total = Stats()
    for platform, p, out in procs:
        _o, err = p.communicate()
        if p.returncode != 0 or not os.path.exists(out):
            raise HarnessError(f"c20 child for {platform} failed rc={p.returncode}: {err.decode()[-2000:]}")
        with open(out, "rb") as f:
            stats = pickle.load(f)
        for i, (clause, detail, case_json) in enumerate(stats.failures):
            if isinstance(case_json, dict):
                case_json["platform"] = platform
        for s in stats.samples:
            if isinstance(s, dict):
                s["platform"] = platform
        total.merge(stats)
    return total


def child_main(argv):
    from vlib import runner

    if argv[0] == "--child-case":
        case = from_jsonable(json.loads(argv[1]))
        try:
            res = run_child_case(case)
        except Violation as v:
            print(json.dumps({"clause": v.clause, "detail": str(v.detail)[:3000]}))
            sys.exit(3)
        print(json.dumps({"labels": list(res.labels), "nontrivial": res.nontrivial}))
        sys.exit(0)
    if argv[0] == "--child-search":
        tier, seed, per, out = argv[1], int(argv[2]), int(argv[3]), argv[4]
        shard = sorted(PLATFORMS).index(PLATFORM)
        stats = runner._run_shard(PROP, tier, seed, shard, len(PLATFORMS), per)
        # ---- enumeration of the core fault space of this platform: every
        # method x errno x native-call index (the other dimensions follow the
        # combination number), so that no (method, errno, index) is left to luck
        _ps, _plat, methods = booted()
        errs = list(ERRNOS) + (list(WINERRORS) if PLATFORM == "windows" else [])
        n = 0
        for mi in range(len(methods)):
            for err in errs:
                for at in (0, 1, 2, 3):
                    n += 1
                    case = dict(kind="fault", method=mi, err=err, at=at, zombie=bool((n + seed) % 3 == 0),
                                sdead=bool(n % 2), cached_name=[None, "cached-name"][(n + seed) % 2],
                                pid=PID if (n + seed) % 5 else 0, pid0_listed=bool((n + seed) % 2),
                                platform=PLATFORM)
                    try:
                        res = PROP.run_case(case)
                    except runner.Violation as v:
                        stats.fail(case, v)
                        break
                    stats.record(case, res, keep_sample=False)
        if PLATFORM in ("netbsd", "sunos", "aix"):
            # Python-level procfs accesses (readlink/stat/listdir under
            # /proc/<pid>) of every method x errno x zombie, and on SunOS/AIX
            # the two-step form (items vanish, then stat() fails with err2)
            seconds = [None] + (list(ERRNOS) if PLATFORM in ("sunos", "aix") else [])
            for mi in range(len(methods)):
                for err in ERRNOS:
                    for err2 in (seconds if err == "ENOENT" else [None]):
                        for zombie in (False, True):
                            n += 1
                            case = dict(kind="procfs-fault", method=mi, err=err, err2=err2, zombie=zombie,
                                        cached_name=[None, "cached-name"][(n + seed) % 2], platform=PLATFORM)
                            try:
                                res = PROP.run_case(case)
                            except runner.Violation as v:
                                stats.fail(case, v)
                                break
                            stats.record(case, res, keep_sample=False)
        if PLATFORM == "windows":
            # ERROR_PARTIAL_COPY first, then every other error at the retry
            for mi in range(len(methods)):
                for then in list(ERRNOS) + [5, 1314, 87, 6]:
                    for at in (0, 1, 2):
                        n += 1
                        case = dict(kind="fault", method=mi, err=299, then=then, at=at, zombie=False, sdead=False,
                                    cached_name=[None, "cached-name"][(n + seed) % 2], pid=PID,
                                    pid0_listed=False, platform=PLATFORM)
                        try:
                            res = PROP.run_case(case)
                        except runner.Violation as v:
                            stats.fail(case, v)
                            break
                        stats.record(case, res, keep_sample=False)
        stats.notes["fault_combinations_enumerated_" + PLATFORM] = n
        with open(out, "wb") as f:
            pickle.dump(stats, f)
        sys.exit(0)


PROP = Property(
    id="C20",
    level="exploration",
    rule=("Seven impersonated platforms, each in its own process with stub "
          "native modules.  Hypothesis generates (kind, method, fault plan): "
          "[fault] every public method of the platform Process class x errno "
          "in {ESRCH, ENOENT, EPERM, EACCES, EIO, EINVAL} (Windows: winerror "
          "5, 1314, 87, 299, 6) raised at native call 0/1/2, PID still listed "
          "as a zombie or not, cached name set or not, PID 0 / listed or not; "
          "[slots] oneshot records whose every slot holds a distinct value -> "
          "the documented named tuple field must carry the value of the slot "
          "the native builder documents (tables hand-derived from the C "
          "sources); [frontend] generated address lists through "
          "psutil.net_if_addrs() (MAC padding, Windows broadcast); [names] "
          "availability tables from the documentation.  Non-trivial = a case "
          "where a native call raised or a slot value reached the output; "
          "distinct = (platform, method, errno | slot, outcome)."),
    strategy=strategy,
    run_case=run_case,
    budgets={"quick": 21000, "thorough": 420000},
    assumptions=[
        "the native C / Obj-C sources of other platforms are not compiled or "
        "executed: the Python layers are driven over a stub native layer",
        "which errno means 'no such process' is per platform: ESRCH "
        "everywhere, ENOENT also on the procfs based layers (SunOS, AIX)",
        "a failure swallowed by a documented fall-back (value returned) is counted, not judged",
    ],
    trusted_base=["stub native modules and slot tables in props/c20_platforms.py", "hypothesis"],
)
PROP.search = search

if __name__ == "__main__":
    if len(sys.argv) > 1 and sys.argv[1].startswith("--child-"):
        child_main(sys.argv[1:])
    main(PROP, "props.c20_platforms")
