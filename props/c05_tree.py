"""C05 - children(), parent() and parents() describe the real process tree.

Domain: generated process tables as inputs (arbitrary parent maps: forests,
self-loops, cycles, unlisted parents; arbitrary start-time orders incl. ties),
the caller's PID recycled after the object was made, processes vanishing at a
generated OS access while the tree is walked.  Exhaustive enumeration of all
parent maps x start orders for n <= 4 (thorough: tier "enum").
Oracle: reference graph model.
"""

import itertools
import os

from hypothesis import strategies as st

from vlib import simk
from vlib.runner import Property
from vlib.runner import Result
from vlib.runner import Violation
from vlib.runner import main

POOL = [1, 2, 3, 5, 8, 13, 21, 34, 55, 89, 144, 233, 377, 610, 987, 1597]


class Abort(Exception):
    pass


def strategy(tier):
    nmax = 10 if tier == "quick" else 30
    return st.integers(1, nmax).flatmap(lambda n: st.fixed_dictionaries(dict(
        n=st.just(n),
        ppid=st.lists(st.integers(0, n + 1), min_size=n, max_size=n),
        start=st.lists(st.one_of(st.integers(0, 5), st.integers(0, 1000)),
                       min_size=n, max_size=n),
        zombie=st.lists(st.booleans(), min_size=n, max_size=n),
        caller=st.integers(0, n - 1),
        recycle_caller=st.sampled_from([None, None, None, "later", "later-zombie"]),
        vanish=st.lists(st.tuples(st.integers(0, n - 1), st.integers(0, 500)),
                        max_size=2),
        # the process_iter() cache is primed, then some other PIDs are
        # recycled (new parent, new start time) before the tree is queried
        prime=st.booleans(),
        recycle_after=st.lists(st.tuples(st.integers(0, n - 1), st.integers(0, n + 1),
                                         st.integers(0, 1000)), max_size=3),
        # the same object has answered ppid()/parent() before; then the caller
        # gets another parent (its parent exited: adopted by init or a
        # subreaper), and is asked again
        pid0=st.sampled_from([False, False, True]),
        warm=st.booleans(),
        reparent=st.one_of(st.none(), st.none(), st.integers(0, n + 1)),
    )))


def make_table(case):
    """-> list of (pid, ppid, start, zombie).  ppid index n means 'a PID that
    is not listed', n+1 means PID 0."""
    n = case["n"]
    pids = POOL[:n] if n <= len(POOL) else list(range(1, n + 1))
    if case.get("pid0"):
        # PID 0 is a listed process (macOS kernel_task, FreeBSD kernel, Windows
        # System Idle Process; the generic code must treat it like any other)
        pids = [0] + pids[:n - 1]
    rows = []
    for i in range(n):
        j = case["ppid"][i]
        if j < n:
            pp = pids[j]
        elif j == n:
            pp = 99999
        else:
            pp = 0
        rows.append((pids[i], pp, case["start"][i], case["zombie"][i]))
    return rows


# process names that make the stat record look like it continues: the parent
# PID must be taken after the LAST ')'
ODD_NAMES = [b"a) S 1 (b", b"x) y", b")", b"(", b") R 0 0", b"p) 1 2", b"sh (1) S 7 7",
             b" ", b"1 S 1", b")))) 9 (((("]


def build(rows):
    k = simk.Kernel(ncpus=2)
    for pid, ppid, start, zombie in rows:
        # (deterministic in the table: every third process has an odd name)
        comm = ODD_NAMES[(pid + ppid) % len(ODD_NAMES)] if (pid + start) % 3 == 0 else b"p%d" % pid
        k.spawn(pid, comm=comm, ppid=ppid, starttime=start * 7 + 3,
                zombie=zombie, state=b"Z" if zombie else b"S")
    return k


def model(rows, me):
    by = {r[0]: r for r in rows}
    my = by[me]
    kids = {}
    for pid, ppid, start, _z in rows:
        kids.setdefault(ppid, []).append(pid)
    direct = sorted(p for p in kids.get(me, []) if p != me and by[p][2] >= my[2])
    # lower bound: closure through included (not older than the caller) nodes
    lower = set()
    stack = [me]
    seen = {me}
    while stack:
        x = stack.pop()
        for c in kids.get(x, []):
            if c in seen:
                continue
            seen.add(c)
            if by[c][2] >= my[2]:
                lower.add(c)
                stack.append(c)
    # upper bound: everything reachable, minus self, minus older processes
    upper = set()
    stack = [me]
    seen = {me}
    while stack:
        x = stack.pop()
        for c in kids.get(x, []):
            if c in seen:
                continue
            seen.add(c)
            stack.append(c)
            if by[c][2] >= my[2]:
                upper.add(c)
    # parent chain
    def parent_of(pid):
        r = by[pid]
        pp = by.get(r[1])
        if pp is None or pp[2] > r[2]:
            return None
        return pp[0]

    chain = []
    cur = me
    visited = {me}
    cyclic = False
    while True:
        nxt = parent_of(cur)
        if nxt is None:
            break
        if nxt in visited:
            cyclic = True
            break
        visited.add(nxt)
        chain.append(nxt)
        cur = nxt
    return direct, lower, upper, parent_of(me), chain, cyclic


def shape_labels(rows, me):
    by = {r[0]: r for r in rows}
    labels = set()
    for pid, ppid, start, _z in rows:
        if ppid == pid:
            labels.add("self-loop")
        if ppid not in by and ppid != 0:
            labels.add("unlisted-parent")
        if ppid in by and by[ppid][2] > start:
            labels.add("older-child")
    # cycles
    for pid, *_ in rows:
        seen = set()
        cur = pid
        while cur in by and cur not in seen:
            seen.add(cur)
            cur = by[cur][1]
        if cur == pid and len(seen) > 1:
            labels.add("cycle%d" % min(len(seen), 4))
    starts = [r[2] for r in rows]
    if len(set(starts)) < len(starts):
        labels.add("start-ties")
    return labels


def check_table(rows, me, recycle=None, vanish=(), prime=False, recycle_after=(), warm=False, reparent=None):
    import psutil

    k = build(rows)
    limit = 400 + 60 * len(rows) * len(rows)
    by = {r[0]: r for r in rows}
    lowest = min(by)
    direct, lower, upper, par, chain, cyclic = model(rows, me)
    labels = shape_labels(rows, me)

    def guard(entry):
        if len(k.log) > guard.base + limit:
            raise Abort()

    guard.base = 0
    out = {}
    with simk.installed(k):
        k.access_hook = guard
        p = psutil.Process(me)
        if warm:
            guard.base = len(k.log)
            try:
                p.ppid()
                p.parent()
            except psutil.Error:
                pass
            labels.add("asked-before")
        if prime:
            guard.base = len(k.log)
            list(psutil.process_iter())
            labels.add("cache-primed")
        if recycle_after:
            new_rows = list(rows)
            for idx, (pid, ppid, start) in recycle_after:
                k.vanish(pid)
                k.spawn(pid, comm=b"r%d" % pid, ppid=ppid, starttime=start * 7 + 3)
                new_rows[idx] = (pid, ppid, start, False)
            rows = new_rows
            by = {r[0]: r for r in rows}
            lowest = min(by)
            direct, lower, upper, par, chain, cyclic = model(rows, me)
            labels |= shape_labels(rows, me)
            labels.add("others-recycled-after-priming" if prime else "others-recycled")
        if reparent is not None and reparent != by[me][1]:
            k.procs[me].ppid = reparent
            rows = [(pid, reparent if pid == me else pp, s_, z_) for pid, pp, s_, z_ in rows]
            by = {r[0]: r for r in rows}
            direct, lower, upper, par, chain, cyclic = model(rows, me)
            labels |= shape_labels(rows, me)
            labels.add("caller-reparented-after-first-answer" if warm else "caller-reparented")
        if recycle:
            old = k.procs[me]
            z = recycle == "later-zombie"
            k.vanish(me)
            k.spawn(me, comm=b"new", ppid=old.ppid, starttime=old.starttime + 1,
                    zombie=z, state=b"Z" if z else b"S")
            labels.add("caller-recycled")
        calls = [("children", lambda: p.children()),
                 ("children_recursive", lambda: p.children(recursive=True)),
                 ("parent", lambda: p.parent())]
        if not cyclic:
            calls.append(("parents", lambda: p.parents()))
        else:
            labels.add("parents-skipped-cyclic-chain")
        for name, fn in calls:
            guard.base = len(k.log)
            try:
                out[name] = ("ok", fn())
            except Abort:
                raise Violation("termination", f"{name}() made more than {limit} OS accesses "
                                f"on a table of {len(rows)} processes: {rows}") from None
            except psutil.NoSuchProcess as e:
                out[name] = ("nsp", e)
            except Exception as e:  # noqa: BLE001
                import traceback
                raise Violation(name + "-exception", f"{e!r} {rows} " + traceback.format_exc()[-300:]) from None
        # processes vanishing while the tree is walked
        vres = None
        if vanish and not recycle:
            guard.base = len(k.log)
            faults = [simk.Fault(kk % 40, "vanish", by_idx) for by_idx, kk in vanish]
            k.arm(faults)
            try:
                vres = ("ok", p.children(recursive=True))
            except Abort:
                raise Violation("termination", f"children(recursive) with vanish: {rows}") from None
            except psutil.NoSuchProcess as e:
                vres = ("nsp", e)
            except Exception as e:  # noqa: BLE001
                import traceback
                raise Violation("vanish-during-walk-exception", f"{e!r} {rows} faults {vanish} "
                                + traceback.format_exc()[-300:]) from None
            k.arm([])
        k.access_hook = None
        survivors = set(k.procs)

    ctx = f"table {rows} caller {me}"
    if recycle:
        for name, (kind, val) in out.items():
            if kind == "nsp":
                continue
            if name in ("parent", "parents") and me == lowest and val in (None, []):
                continue
            raise Violation("recycled-caller", f"{name}() returned {val!r} for a recycled caller; {ctx}")
        return labels

    for name, (kind, val) in out.items():
        if kind != "ok":
            raise Violation(name + "-nsp", f"{val!r}; {ctx}")
    got = [c.pid for c in out["children"][1]]
    if sorted(got) != direct:
        raise Violation("children", f"{sorted(got)} expected {direct}; {ctx}")
    # the returned objects must be the processes that are listed NOW
    with simk.installed(k, reset=False):
        for c in list(out["children"][1]) + list(out["children_recursive"][1]):
            if c.pid in k.procs and c != psutil.Process(c.pid):
                raise Violation("children-stale-object",
                                f"children() returned an object for a previous owner of pid {c.pid}; {ctx}")
    got = [c.pid for c in out["children_recursive"][1]]
    if len(got) != len(set(got)):
        raise Violation("children-recursive-duplicates", f"{got}; {ctx}")
    if me in got:
        raise Violation("children-recursive-self", f"{got} contains the caller; {ctx}")
    if not lower <= set(got) <= upper:
        raise Violation("children-recursive", f"{sorted(got)} not between {sorted(lower)} and {sorted(upper)}; {ctx}")
    pv = out["parent"][1]
    if me == lowest:
        if pv is not None and pv.pid != par:
            raise Violation("parent", f"{pv!r} expected None or pid {par}; {ctx}")
    elif (pv.pid if pv is not None else None) != par:
        raise Violation("parent", f"{pv!r} expected pid {par}; {ctx}")
    if "parents" in out:
        got = [q.pid for q in out["parents"][1]]
        exp_chain = chain
        # the lowest listed PID is "root": the chain may stop there
        if got != exp_chain:
            cut = None
            for i, q in enumerate([me] + exp_chain):
                if q == lowest:
                    cut = exp_chain[:i]
                    break
            if cut is None or got != cut:
                raise Violation("parents", f"{got} expected {exp_chain}; {ctx}")
    if vres is not None:
        kind, val = vres
        if kind == "nsp":
            if me in survivors:
                raise Violation("vanish-during-walk", f"NoSuchProcess for a surviving caller; {ctx}")
        else:
            got = {c.pid for c in val}
            rows_after = [r for r in rows if r[0] in survivors]
            if me in survivors:
                _d, lower_after, _u, *_ = model(rows_after, me)
                need = {x for x in lower_after if x in lower}
            else:
                need = set()
            if not need <= got <= upper or me in got:
                raise Violation("vanish-during-walk",
                                f"{sorted(got)} not between {sorted(need)} and {sorted(upper)}; "
                                f"vanished {sorted(set(by) - survivors)}; {ctx}")
        labels.add("vanish-during-walk")
    return labels


def run_case(case):
    rows = make_table(case)
    me = rows[case["caller"]][0]
    vanish = [(rows[i][0], kk) for i, kk in case["vanish"] if rows[i][0] != me]
    n = len(rows)
    pids = [r[0] for r in rows]
    rec = []
    seen_idx = set()
    for idx, pj, start in case.get("recycle_after", []):
        if rows[idx][0] == me or idx in seen_idx:
            continue
        seen_idx.add(idx)
        pp = pids[pj] if pj < n else (99999 if pj == n else 0)
        rec.append((idx, (rows[idx][0], pp, start)))
    rp = case.get("reparent")
    if rp is not None:
        rp = pids[rp] if rp < n else (99999 if rp == n else 0)
    labels = check_table(rows, me, case["recycle_caller"], vanish if not rec else (),
                         prime=case.get("prime", False), recycle_after=rec,
                         warm=case.get("warm", False), reparent=rp)
    key = labels & {"self-loop", "unlisted-parent", "older-child", "cycle2", "cycle3",
                    "cycle4", "caller-recycled", "vanish-during-walk", "start-ties"}
    nontrivial = None
    if key & {"self-loop", "unlisted-parent", "older-child", "cycle2", "cycle3", "cycle4"}:
        nontrivial = ",".join(sorted(key)) + "|n=%d" % min(len(rows), 6)
    return Result(sorted(labels) or ["forest"], nontrivial)


def _weak_orders(n):
    """Start-time vectors up to order isomorphism (ties included)."""
    return [t for t in itertools.product(range(n), repeat=n) if set(t) == set(range(max(t) + 1))]


def _enum_chunk(args):
    n, pp = args
    pids = POOL[:n]
    total = 0
    keys = set()
    for starts in _weak_orders(n):
        rows = [(pids[i], pp[i], starts[i], False) for i in range(n)]
        for me in pids:
            try:
                labels = check_table(rows, me)
            except Violation as v:
                return ("fail", {"enum": rows, "caller": me}, v.clause, str(v.detail))
            total += 1
            key = labels & {"self-loop", "unlisted-parent", "older-child", "cycle2", "cycle3", "cycle4"}
            if key:
                keys.add("enum|" + ",".join(sorted(key)) + "|n=%d" % n)
    return ("ok", total, keys)


def enum_tier(tier, seed, stats):
    """ALL parent maps x start-time orders (up to order isomorphism, ties
    included) x callers for n <= 3 (quick) / n <= 4 (thorough)."""
    import multiprocessing

    nmax = 3 if tier == "quick" else 4
    jobs = []
    for n in range(1, nmax + 1):
        pids = POOL[:n]
        for pp in itertools.product(*([pids + [99999, 0]] * n)):
            jobs.append((n, pp))
    total = 0
    with multiprocessing.get_context("fork").Pool(min(16, os.cpu_count() or 1)) as pool:
        for res in pool.imap_unordered(_enum_chunk, jobs, chunksize=8):
            if res[0] == "fail":
                stats.fail(res[1], Violation(res[2], res[3]))
                stats.notes["enum_exhaustive"] = False
                return
            total += res[1]
            stats.evaluations += res[1]
            stats.labels["enum"] += res[1]
            stats.nontrivial |= res[2]
    stats.notes["enum_tables_x_callers"] = total
    stats.notes["enum_exhaustive_up_to_n"] = nmax


def run_any(case):
    if "enum" in case:
        rows = [tuple(r) for r in case["enum"]]
        labels = check_table(rows, case["caller"])
        return Result(sorted(labels))
    return run_case(case)


PROP = Property(
    id="C05",
    level="exploration",
    rule=("Hypothesis generates process tables of 1-10 (thorough 30) "
          "processes with arbitrary parent maps (forests, self-loops, 2/3/n-"
          "cycles, unlisted parents, PID 0) and start-time orders incl. ties, "
          "zombies, the caller's PID recycled (live or zombie) after the "
          "object was made, and up to two other processes vanishing at "
          "generated OS accesses during children(recursive=True); an "
          "enumeration tier covers ALL parent maps x start orders x callers "
          "for n<=3 (quick) / n<=4 (thorough).  children / children(recursive) "
          "/ parent / parents are compared with a reference graph model; "
          "termination is an OS-access bound (no wall clock).  Non-trivial = "
          "table with a cycle, self-loop, older 'child' or unlisted parent; "
          "distinct = shape set x size class."),
    strategy=strategy,
    run_case=run_any,
    budgets={"quick": 10000, "thorough": 60000},
    extra_tiers=[("enum", enum_tier)],
    assumptions=[
        "for the lowest listed PID psutil defines 'root': parent() None is accepted there",
        "paths through an excluded (older) node are accepted either way",
        "parents() is only called when the model's parent chain is acyclic "
        "(on a cyclic chain with equal start times 'the chain up to the root' is not defined)",
    ],
    trusted_base=["vlib/simk.py process table", "hypothesis"],
)

if __name__ == "__main__":
    main(PROP, "props.c05_tree")
