"""C08 - virtual_memory() / swap_memory() follow the documented formulas.

Domain: generated /proc/meminfo, /proc/vmstat, /proc/zoneinfo.  Oracle: an
independent integer re-statement of the property and of the kernel commit
34e431b0ae (MemAvailable estimate) cited by the fallback's docstring.
"""

import warnings
from fractions import Fraction

from hypothesis import strategies as st

from vlib import simk
from vlib.runner import Property
from vlib.runner import Result
from vlib.runner import Violation
from vlib.runner import main

PAGE = simk.PAGESIZE

OPTIONAL = ["Buffers", "Cached", "SReclaimable", "Shmem", "MemShared",
            "Active", "Inactive", "Inact_dirty", "Inact_clean",
            "Inact_laundry", "Slab", "MemAvailable", "Active(file)",
            "Inactive(file)", "SwapTotal", "SwapFree"]
NOISE = ["SwapCached", "Unevictable", "Mlocked", "Dirty", "Writeback",
         "AnonPages", "Mapped", "KReclaimable", "SUnreclaim", "KernelStack",
         "PageTables", "CommitLimit", "Committed_AS", "VmallocTotal",
         "HugePages_Total", "HugePages_Free", "Hugepagesize", "DirectMap4k",
         "Active(anon)", "Inactive(anon)"]
NO_UNIT = {"HugePages_Total", "HugePages_Free"}


def kb(maxbits=50):
    return st.one_of(
        st.sampled_from([0, 1, 4, 1024, 2**20, 2**32, 2**maxbits]),
        st.integers(0, 2**24),
        st.integers(0, 2**maxbits),
    )


def strategy(tier):
    opt = st.dictionaries(st.sampled_from(OPTIONAL), kb(), max_size=len(OPTIONAL))
    modern = st.fixed_dictionaries({k: kb() for k in OPTIONAL
                                    if k not in ("MemShared", "Inact_dirty",
                                                 "Inact_clean", "Inact_laundry")})
    return st.fixed_dictionaries(dict(
        total=kb(), free=kb(),
        # relation of free to total: generate both consistent and distorted
        free_mode=st.sampled_from(["any", "le_total", "le_total", "frac"]),
        opt=st.one_of(opt, modern, modern),
        avail_mode=st.sampled_from(["asis", "asis", "zero", "absent", "huge",
                                    "frac"]),
        noise=st.lists(st.tuples(st.sampled_from(NOISE), kb(40)), max_size=6,
                       unique_by=lambda t: t[0]),
        order_seed=st.integers(0, 2**16),
        zoneinfo=st.one_of(
            st.none(),
            st.lists(st.tuples(st.sampled_from(["DMA", "DMA32", "Normal",
                                                "Movable", "Device"]),
                               st.integers(0, 2**22), st.integers(0, 2**22),
                               st.integers(0, 2**22)),
                     min_size=0, max_size=4)),
        # /proc/zoneinfo present but not openable (LSM / container masking):
        # the watermarks are as unavailable as when the file is absent
        zoneinfo_errno=st.sampled_from([None, None, None, None, None, None, "EACCES", "EPERM", "EIO", "EISDIR"]),
        vmstat=st.one_of(
            st.none(),
            st.fixed_dictionaries(dict(
                both=st.booleans(),
                pswpin=st.one_of(st.integers(0, 2**20), st.integers(0, 2**52)),
                pswpout=st.one_of(st.integers(0, 2**20), st.integers(0, 2**52)),
                pre=st.integers(0, 5), post=st.integers(0, 5)))),
        sysinfo=st.tuples(st.integers(0, 2**40), st.integers(0, 2**40),
                          st.sampled_from([1, 4096])),
    ))


def materialise(case):
    """Return ordered list of (name, kB) lines and the dict view."""
    total = case["total"]
    free = case["free"]
    if case["free_mode"] == "le_total":
        free = min(free, total)
    elif case["free_mode"] == "frac":
        free = total // 3
    opt = dict(case["opt"])
    am = case["avail_mode"]
    if am == "zero":
        opt["MemAvailable"] = 0
    elif am == "absent":
        opt.pop("MemAvailable", None)
    elif am == "huge":
        opt["MemAvailable"] = total + 1 + opt.get("MemAvailable", 0)
    elif am == "frac":
        opt["MemAvailable"] = total // 2
    items = [("MemTotal", total), ("MemFree", free)]
    rest = list(opt.items()) + [tuple(t) for t in case["noise"]]
    # deterministic shuffle of the optional lines
    s = case["order_seed"]
    rest.sort(key=lambda kv: hash((s, kv[0])) if False else
              (sum(kv[0].encode()) * 7919 + s * 31 + len(kv[0])) % 10007)
    items += rest
    return items


def render_meminfo(items):
    out = []
    for name, v in items:
        # fs/proc/meminfo.c show_val_kb(): label padded with spaces (always at
        # least one), value right-aligned to 8 columns, then " kB"
        label = (name + ":").ljust(15) + " "
        if name in NO_UNIT:
            # mm/hugetlb.c hugetlb_report_meminfo(): "HugePages_Total:   %5lu"
            out.append(((name + ":").ljust(19) + "%5d" % v).encode())
        else:
            out.append(("%s%8d kB" % (label, v)).encode())
    return b"\n".join(out) + b"\n"


def render_zoneinfo(zones):
    out = []
    for i, (name, mn, low, high) in enumerate(zones):
        out += [
            "Node 0, zone %8s" % name,
            "  per-node stats" if i == 0 else None,
            "      nr_inactive_anon 100" if i == 0 else None,
            "  pages free     3840",
            "        boost    0",
            "        min      %d" % mn,
            "        low      %d" % low,
            "        high     %d" % high,
            "        spanned  4095",
            "        present  3998",
            "        managed  3840",
            "        protection: (0, 2911, 15882, 15882, 15882)",
            "      nr_free_pages 3840",
            "  pagesets",
            "    cpu: 0",
            "              count: 0",
            "              high:  14",
            "              batch: 1",
        ]
    return ("\n".join(x for x in out if x is not None) + "\n").encode()


def model_vm(items, zones):
    m = {k: v * 1024 for k, v in items}
    missing = []
    total, free = m["MemTotal"], m["MemFree"]
    if "Buffers" in m:
        buffers = m["Buffers"]
    else:
        buffers = 0
        missing.append("buffers")
    if "Cached" in m:
        cached = m["Cached"] + m.get("SReclaimable", 0)
    else:
        cached = 0
        missing.append("cached")
    if "Shmem" in m:
        shared = m["Shmem"]
    elif "MemShared" in m:
        shared = m["MemShared"]
    else:
        shared = 0
        missing.append("shared")
    if "Active" in m:
        active = m["Active"]
    else:
        active = 0
        missing.append("active")
    if "Inactive" in m:
        inactive = m["Inactive"]
    elif all(k in m for k in ("Inact_dirty", "Inact_clean", "Inact_laundry")):
        inactive = m["Inact_dirty"] + m["Inact_clean"] + m["Inact_laundry"]
    else:
        inactive = 0
        missing.append("inactive")
    slab = m.get("Slab", 0)
    used = total - free - cached - buffers
    branches = set()
    if used < 0:
        used = total - free
        branches.add("used<0")
    avail = m.get("MemAvailable")
    if not avail:
        branches.add("MemAvailable-absent" if avail is None else "MemAvailable==0")
        # documented fallback: kernel commit 34e431b0ae
        if (all(k in m for k in ("Active(file)", "Inactive(file)",
                                 "SReclaimable")) and zones is not None):
            wm = sum(z[2] for z in zones) * PAGE
            pc = m["Active(file)"] + m["Inactive(file)"]
            pc -= min(Fraction(pc, 2), wm)
            sr = m["SReclaimable"]
            avail = free - wm + pc + sr - min(Fraction(sr, 2), wm)
            avail = int(avail) if avail >= 0 else -int(-avail)  # trunc
            branches.add("fallback-watermarks")
        else:
            avail = free + m.get("Cached", 0)
            branches.add("fallback-free+cached")
    avail_named = False
    if avail < 0:
        avail = 0
        avail_named = True
        branches.add("avail<0")
    elif avail > total:
        avail = free
        branches.add("avail>total")
    if total == 0:
        branches.add("total==0")
    for k in missing:
        branches.add("missing-" + k)
    exp = dict(total=total, available=avail, used=used, free=free,
               active=active, inactive=inactive, buffers=buffers,
               cached=cached, shared=shared, slab=slab)
    pct = Fraction((total - avail) * 100, total) if total else Fraction(0)
    return exp, pct, missing, avail_named, branches


def check_percent(got, exact, what):
    if round(got, 1) != got:
        raise Violation(what, f"percent {got!r} is not rounded to one decimal")
    if abs(Fraction(got) - exact) > (Fraction(1, 20) + Fraction(1, 10**9)
                                     + abs(exact) / 2**50):
        raise Violation(what, f"percent {got!r}, formula gives {float(exact)!r}")


def run_case(case):
    import psutil

    items = materialise(case)
    zones = case["zoneinfo"]
    k = simk.Kernel()
    k.set_file("/proc/meminfo", render_meminfo(items))
    zerr = case.get("zoneinfo_errno")
    if zones is not None:
        zones = [tuple(z) for z in zones]
        if zerr == "EISDIR":
            k.mkdir("/proc/zoneinfo")
            zones = None
        elif zerr:
            import errno as _errno
            k.set_file("/proc/zoneinfo", simk.Unreadable(getattr(_errno, zerr), "open",
                                                         render_zoneinfo(zones)))
            zones = None
        else:
            k.set_file("/proc/zoneinfo", render_zoneinfo(zones))
    vs = case["vmstat"]
    if vs is not None:
        lines = ["nr_free_pages 1000"] * vs["pre"]
        lines.append("pswpin %d" % vs["pswpin"])
        if vs["both"]:
            lines.append("pswpout %d" % vs["pswpout"])
        lines += ["pgfault 42"] * vs["post"]
        k.set_file("/proc/vmstat", ("\n".join(lines) + "\n").encode())
    k.sysinfo = (0, 0, 0, 0, case["sysinfo"][0], case["sysinfo"][1],
                 case["sysinfo"][2])

    exp, pct, missing, avail_named, branches = model_vm(items, zones)
    if zerr and case["zoneinfo"] is not None and "fallback-free+cached" in branches:
        branches.add("zoneinfo-unreadable")
    with simk.installed(k):
        with warnings.catch_warnings(record=True) as ws:
            warnings.simplefilter("always")
            try:
                vm = psutil.virtual_memory()
            except Exception as e:  # noqa: BLE001
                raise Violation("vm-succeeds", f"virtual_memory() raised {e!r}")
        vm_ws = [w for w in ws if issubclass(w.category, RuntimeWarning)]
        with warnings.catch_warnings(record=True) as ws2:
            warnings.simplefilter("always")
            try:
                sw = psutil.swap_memory()
            except Exception as e:  # noqa: BLE001
                raise Violation("swap-succeeds", f"swap_memory() raised {e!r}")
        sw_ws = [w for w in ws2 if issubclass(w.category, RuntimeWarning)]
        # the zone watermarks change (vm.min_free_kbytes written, memory
        # hot-plug): the next call uses the new ones
        vm2 = zones2 = None
        if zones is not None and "fallback-watermarks" in branches:
            zones2 = [(n_, mn_, lo_ * 2 + 257, hi_) for n_, mn_, lo_, hi_ in zones]
            k.set_file("/proc/zoneinfo", render_zoneinfo(zones2))
            with warnings.catch_warnings():
                warnings.simplefilter("ignore")
                try:
                    vm2 = psutil.virtual_memory()
                except Exception as e:  # noqa: BLE001
                    raise Violation("vm-succeeds", f"second virtual_memory() raised {e!r}")

    if vm._fields != ("total", "available", "percent", "used", "free", "active",
                      "inactive", "buffers", "cached", "shared", "slab"):
        raise Violation("vm-fields", repr(vm._fields))
    for name, v in exp.items():
        if getattr(vm, name) != v:
            raise Violation("vm-" + name,
                            f"{name}={getattr(vm, name)!r} expected {v!r} "
                            f"(branches {sorted(branches)})")
    check_percent(vm.percent, pct, "vm-percent")
    if vm2 is not None:
        exp2 = model_vm(items, zones2)[0]
        if vm2.available != exp2["available"]:
            raise Violation("vm-available", f"after the zone watermarks changed: available={vm2.available!r} "
                                            f"expected {exp2['available']!r} (first call {vm.available!r})")
        branches.add("watermarks-changed-between-two-calls")
    if exp["free"] <= exp["total"] and not 0 <= vm.percent <= 100:
        raise Violation("vm-percent-range", repr(vm.percent))
    # warnings: exactly one naming exactly the missing metrics
    want = set(missing)
    if want or avail_named:
        if len(vm_ws) != 1 and want:
            raise Violation("vm-warning", f"{len(vm_ws)} warnings for missing {missing}")
        text = str(vm_ws[0].message) if vm_ws else ""
        head = text.split(" memory stats")[0]
        named = {x.strip() for x in head.split(",") if x.strip()}
        if named - {"available"} != want or "slab" in named:
            raise Violation("vm-warning", f"warning names {sorted(named)}, "
                            f"missing metrics are {sorted(want)}")
    elif vm_ws:
        raise Violation("vm-warning", f"unexpected warning {vm_ws[0].message}")

    # swap
    m = dict(items)
    if "SwapTotal" in m and "SwapFree" in m:
        stotal, sfree = m["SwapTotal"] * 1024, m["SwapFree"] * 1024
        branches.add("swap-meminfo")
    else:
        stotal = case["sysinfo"][0] * case["sysinfo"][2]
        sfree = case["sysinfo"][1] * case["sysinfo"][2]
        branches.add("swap-sysinfo")
    if (sw.total, sw.free, sw.used) != (stotal, sfree, stotal - sfree):
        raise Violation("swap-values", f"{sw!r} expected total={stotal} "
                        f"free={sfree} used={stotal - sfree}")
    spct = Fraction((stotal - sfree) * 100, stotal) if stotal else Fraction(0)
    check_percent(sw.percent, spct, "swap-percent")
    if vs is not None and vs["both"]:
        exp_io = (vs["pswpin"] * 4096, vs["pswpout"] * 4096)
        want_warn = False
    else:
        exp_io = (0, 0)
        want_warn = True
        branches.add("vmstat-absent" if vs is None else "vmstat-incomplete")
    if (sw.sin, sw.sout) != exp_io:
        raise Violation("swap-sin-sout", f"{(sw.sin, sw.sout)} expected {exp_io}")
    if want_warn != bool(sw_ws):
        raise Violation("swap-warning", f"warnings={[str(w.message) for w in sw_ws]} "
                        f"expected_warning={want_warn}")

    interesting = branches - {"swap-meminfo", "fallback-watermarks"} \
        if "MemAvailable-absent" not in branches and "MemAvailable==0" not in branches \
        else branches
    nontrivial = ",".join(sorted(interesting)) if interesting else None
    return Result(sorted(branches) or ["plain"], nontrivial)


def calibrate():
    """Byte-exact round trip of the live /proc/meminfo through the model
    renderer (format), and live zoneinfo 'low' lines through the model."""
    global NO_UNIT
    from vlib.runner import HarnessError

    with open("/proc/meminfo", "rb") as f:
        live = f.read()
    items = []
    for ln in live.decode().splitlines():
        name, rest = ln.split(":", 1)
        items.append((name, int(rest.split()[0])))
        if (len(rest.split()) == 1) != (name in NO_UNIT or name.startswith("HugePages_")):
            raise HarnessError(f"meminfo unit convention: {ln!r}")
    saved = NO_UNIT
    NO_UNIT = {n for n, _ in items if n.startswith("HugePages_")}
    try:
        mine = render_meminfo(items)
    finally:
        NO_UNIT = saved
    if mine != live:
        for a, b in zip(mine.splitlines(), live.splitlines()):
            if a != b:
                raise HarnessError(f"meminfo format: model {a!r} live {b!r}")
        raise HarnessError("meminfo format differs")
    with open("/proc/zoneinfo", "rb") as f:
        z = f.read()
    lows = [ln for ln in z.splitlines() if ln.strip().startswith(b"low")]
    mine = [ln for ln in render_zoneinfo([("DMA", 1, 2, 3)]).splitlines()
            if ln.strip().startswith(b"low")]
    if not lows or lows[0].split()[0] != mine[0].split()[0] or len(lows[0].split()) != 2:
        raise HarnessError("zoneinfo 'low' line shape")
    with open("/proc/vmstat", "rb") as f:
        v = [ln for ln in f.read().splitlines() if ln.startswith(b"pswp")]
    if [ln.split(b" ")[0] for ln in v] != [b"pswpin", b"pswpout"]:
        raise HarnessError("vmstat pswpin/pswpout lines")
    return {"meminfo_lines_roundtripped": len(items), "zoneinfo_low_lines": len(lows)}


def live_copy_tier(tier, seed, stats):
    """The live /proc/{meminfo,vmstat,zoneinfo} copied to a directory that is
    handed to psutil through the public PROCFS_PATH (real open(), no
    interposition); compared with the model applied to the same bytes."""
    import os
    import shutil
    import tempfile

    import psutil

    d = tempfile.mkdtemp(prefix="psv-c08-", dir=os.environ.get("VERIF_SCRATCH"))
    try:
        for name in ("meminfo", "vmstat", "zoneinfo"):
            shutil.copyfile("/proc/" + name, os.path.join(d, name))
        items = []
        with open(os.path.join(d, "meminfo")) as f:
            for ln in f:
                name, rest = ln.split(":", 1)
                items.append((name, int(rest.split()[0])))
        zones = []
        with open(os.path.join(d, "zoneinfo")) as f:
            for ln in f:
                if ln.strip().startswith("low"):
                    zones.append(("z", 0, int(ln.split()[1]), 0))
        variants = [("full", items, zones)]
        # the same host without MemAvailable (kernel < 3.14): the documented fallback
        variants.append(("no-MemAvailable", [x for x in items if x[0] != "MemAvailable"], zones))
        for vname, its, zs in variants:
            with open(os.path.join(d, "meminfo"), "w") as f:
                f.write(render_meminfo(its).decode())
            old = psutil.PROCFS_PATH
            psutil.PROCFS_PATH = d
            try:
                with warnings.catch_warnings():
                    warnings.simplefilter("ignore")
                    vm = psutil.virtual_memory()
                    sw = psutil.swap_memory()
            finally:
                psutil.PROCFS_PATH = old
            exp, pct, _missing, _an, branches = model_vm(its, zs)
            case = {"live_copy": vname}
            bad = [k_ for k_, v in exp.items() if getattr(vm, k_) != v]
            m = dict(its)
            if bad or abs(Fraction(vm.percent) - pct) > Fraction(1, 20) + Fraction(1, 10**6) \
                    or sw.total != m.get("SwapTotal", 0) * 1024 or sw.free != m.get("SwapFree", 0) * 1024:
                stats.fail(case, Violation("live-copy", f"{vname}: {vm} / {sw}; model {exp} differs in {bad}"))
                continue
            stats.record(case, Result(["live-copy"], "live-copy|" + vname + "|" + ",".join(sorted(branches))),
                         keep_sample=False)
    finally:
        shutil.rmtree(d, ignore_errors=True)


PROP = Property(
    prelude=True,
    id="C08",
    level="exploration",
    rule=("Hypothesis generates /proc/meminfo (MemTotal, MemFree + any subset "
          "of 16 optional fields + unknown lines with/without kB, values to "
          "2^50 kB incl. distorted relations), /proc/zoneinfo (absent or 0-4 "
          "zones) and /proc/vmstat (absent / incomplete / complete); both "
          "functions are compared field by field with an integer "
          "re-statement.  Non-trivial = the model takes a clamp, fallback or "
          "missing-field branch; distinct = distinct branch sets."),
    strategy=strategy,
    run_case=run_case,
    budgets={"quick": 16000, "thorough": 150000},
    calibrate=calibrate,
    extra_tiers=[("live-copy", live_copy_tier)],
    assumptions=[
        "meminfo has no blank lines; values are kB integers <= 2^50 "
        "(so psutil's float halving in the fallback is exact)",
        "sysinfo() fallback for swap is served by the simulated extension",
    ],
    trusted_base=["vlib/simk.py file layer", "hypothesis"],
)

if __name__ == "__main__":
    main(PROP, "props.c08_memory")
