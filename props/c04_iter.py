"""C04 - pids(), pid_exists() and process_iter() give one coherent, cached
process list.

Domain: histories of process-table changes (spawn, exit, reap, recycle,
zombie, extra threads with their own TIDs) between and during iterations,
iterators consumed fully / partially / abandoned / closed later / dropped,
cache_clear(), is_running() on cached objects, attrs subsets, pid_exists() on
listed PIDs, TIDs, absent, negative and huge numbers.
Oracle: reference model of the statement.
"""

import gc

from hypothesis import strategies as st

from vlib import history
from vlib import simk
from vlib.runner import Property
from vlib.runner import Result
from vlib.runner import Violation
from vlib.runner import known_keys
from vlib.runner import main

KNOWN_REFRESH = "C04-pass-noticing-reuse-omits-pid"
KNOWN_STALE_ITER = "C04-stale-iterator-finaliser-overwrites-cache"

ATTRS = [None, None, ["name"], ["pid", "status", "ppid"], [], ["cmdline", "num_threads"]]
PID_EXISTS_ARGS = [0, 1, 2, 7, 10, 11, 12, 13, 14, 15, 16, 99, 5000, 2**31 - 1,
                   2**31, 2**31 + 1, 2**32, 2**63 - 1, 2**63, 2**64, 10**30,
                   -1, -5, -2**31, -2**63, -10**30]


def strategy(tier):
    nops = 24 if tier == "quick" else 48
    i = st.integers(0, 11)
    ops = [
        st.tuples(st.just("spawn"), i, st.booleans(), st.sampled_from([False, False, True])),
        st.tuples(st.just("exit"), i),
        st.tuples(st.just("reap"), i),
        st.tuples(st.just("recycle"), i, st.booleans()),
        st.tuples(st.just("recycle"), i, st.booleans()),
        st.tuples(st.just("thread"), i),
        # /proc mounted with hidepid=1, or an LSM: the status file of another
        # user's process (and of its threads) cannot be opened
        st.tuples(st.just("hide_status"), i),
        # recycle a cached PID, then let is_running() on the stale object find it
        st.tuples(st.just("recycle_detect"), i, st.booleans()),
        st.tuples(st.just("iter_next"), i, st.integers(1, 3)),
        st.tuples(st.just("iter_new"), st.integers(0, len(ATTRS) - 1)),
        st.tuples(st.just("iter_new"), st.integers(0, len(ATTRS) - 1)),
        st.tuples(st.just("iter_next"), i, st.integers(1, 4)),
        st.tuples(st.just("iter_finish"), i),
        st.tuples(st.just("iter_close"), i),
        st.tuples(st.just("iter_drop"), i),
        st.tuples(st.just("pass"), st.integers(0, len(ATTRS) - 1)),
        st.tuples(st.just("pass"), st.integers(0, len(ATTRS) - 1)),
        st.tuples(st.just("pass"), st.just(0)),
        st.tuples(st.just("cache_clear")),
        st.tuples(st.just("is_running"), i),
        st.tuples(st.just("is_running"), i),
        st.tuples(st.just("pid_exists"), st.integers(0, len(PID_EXISTS_ARGS) - 1)),
        st.tuples(st.just("pids")),
    ]
    # multi-op motifs spliced into the independent draws (each step matters)
    pi = st.integers(0, 5)
    ai = st.integers(2, len(ATTRS) - 1)
    motifs = [
        # a cached process dies while a pass (with attrs) is under way, its
        # PID is taken again before the next pass
        st.tuples(pi, ai).map(lambda t: [("pass", 0), ("iter_new", t[1]), ("exit", t[0]), ("iter_finish", 11),
                                         ("recycle", t[0], False), ("pass", 0), ("pass", 0)]),
        # the same with the death after a few items were consumed
        st.tuples(pi, ai).map(lambda t: [("pass", 0), ("iter_new", t[1]), ("iter_next", 11, 1), ("exit", t[0]),
                                         ("iter_finish", 11), ("spawn", t[0], False, False), ("pass", 0)]),
        # gone noticed by is_running() while the PID is free, then recycled
        pi.map(lambda n: [("pass", 0), ("exit", n), ("is_running", 0), ("is_running", 1), ("is_running", 2),
                          ("recycle", n, False), ("pass", 0), ("pass", 0)]),
    ]
    motifs.append(
        # reuse noticed through an object of a pass that is still under way
        # (first pass: nothing committed to the cache yet)
        st.tuples(st.integers(1, 3), pi).map(lambda t: [("cache_clear",), ("iter_new", 0), ("iter_next", 11, t[0]),
                                                        ("recycle_yielded", t[1]), ("is_running_yielded",),
                                                        ("iter_finish", 11), ("pass", 0), ("pass", 0), ("pass", 0)]))
    motifs.append(
        # a cached process ends, wait() is called on the cached object, the
        # PID is taken again, is_running() on the old object notices
        st.tuples(pi, st.booleans()).map(lambda t: [("pass", 0), ("wait_then_recycle", t[0], t[1]),
                                                    ("is_running_yielded",), ("pass", 0), ("pass", 0)]))
    ops.append(st.tuples(st.just("wait_then_recycle"), i, st.booleans()))
    one = st.one_of(*ops).map(lambda o: [o])
    piece = st.one_of(one, one, one, one, one, one, one, one, one, st.one_of(*motifs))
    return st.fixed_dictionaries(dict(
        setup=st.integers(0, 63),
        ops=st.lists(piece, min_size=4, max_size=nops).map(
            lambda ps: [op for p_ in ps for op in p_][:nops + 8]),
    ))


class It:
    def __init__(self, gen, attrs):
        self.gen = gen
        self.attrs = attrs
        self.started = False
        self.done = False
        self.listing = None
        self.yielded = []
        self.clean = True


def run_case(case):
    import psutil

    if "sched" in case:
        run_sched(*case["sched"])
        return Result(["sched"])
    known = known_keys("C04")
    strict = bool(case.get("allow_known"))
    w = history.World()
    k = w.k
    labels = set()
    its = []
    expect_same = {}   # pid -> object that must be yielded again
    must_differ = {}   # pid -> {id(object): event seq} objects that must not come back
    keep = []          # keep objects alive so that id() stays unique
    tids = {}
    excluded = 0
    pending_reused = set()  # pids flagged by is_running() and not yet consumed
    obj_inc = {}  # id(object) -> incarnation it was created for
    seq = [0]     # event counter: constraints bind iterators started later

    def forbid(pid, obj):
        seq[0] += 1
        must_differ.setdefault(pid, {})[id(obj)] = seq[0]

    def finalise_open(reason, but=None):
        """Known finding (stale iterator finaliser overwrites the cache):
        exclude by construction - no started iterator stays open across
        another iterator's start, a cache_clear() or a reuse detection."""
        nonlocal excluded
        if KNOWN_STALE_ITER not in known or strict:
            return
        for o in its:
            if o is not but and o.started and not o.done and o.gen is not None:
                o.gen.close()
                o.done = True
                excluded += 1

    def listed():
        return sorted(p for p, pr in k.procs.items())

    def open_others(me):
        return [x for x in its if x is not me and x.started and not x.done]

    def on_start(it):
        finalise_open("start", but=it)
        seq[0] += 1
        it.start_seq = seq[0]
        it.started = True
        it.listing = listed()
        it.cached_at_start = dict(psutil._pmap)
        it.flagged_at_start = set(pending_reused)
        pending_reused.clear()
        # PIDs whose cached object belongs to a previous owner of the PID
        it.stale_at_start = {
            pid for pid, obj in psutil._pmap.items()
            if pid in k.procs and obj_inc.get(id(obj), w.owner_inc(pid)) != w.owner_inc(pid)}
        for pid in list(expect_same):
            if pid not in it.listing:
                forbid(pid, expect_same.pop(pid))
        if open_others(it):
            labels.add("overlapping-iterators")

    def advance(it, n):
        """n=None: to exhaustion."""
        count = 0
        while n is None or count < n:
            if it.done:
                return
            if not it.started:
                on_start(it)
            # an iterator is "clean" if no other iterator advanced while it
            # was open (an idle abandoned iterator does not taint a pass)
            for o in open_others(it):
                o.clean = False
            try:
                obj = next(it.gen)
            except StopIteration:
                it.done = True
                finish(it)
                return
            except Exception as e:  # noqa: BLE001
                import traceback
                raise Violation("process_iter-raises", f"{e!r} " + traceback.format_exc()[-400:]) from None
            keep.append(obj)
            pid = obj.pid
            obj_inc.setdefault(id(obj), w.owner_inc(pid))
            if it.yielded and pid <= it.yielded[-1][0]:
                raise Violation("order", f"yielded pid {pid} after {it.yielded[-1][0]}")
            if pid not in it.listing:
                raise Violation("not-listed", f"yielded pid {pid}, listed at start: {it.listing}")
            if it.attrs is not None:
                info = getattr(obj, "info", None)
                want = set(it.attrs) if it.attrs else None
                if info is None or (want is not None and set(info) != want) \
                        or (want is None and "pid" not in info):
                    raise Violation("attrs-info", f"attrs={it.attrs}: info={info!r}")
            if must_differ.get(pid, {}).get(id(obj), 10**9) < it.start_seq:
                raise Violation("stale-object-yielded-again",
                                f"pid {pid}: an object dropped from the cache (PID went away / "
                                f"recycled / cache_clear) was yielded again; ops {case['ops']}")
            it.yielded.append((pid, obj))
            count += 1

    def finish(it):
        got = [p for p, _ in it.yielded]
        alive_now = set(listed())
        if it.attrs is not None:
            # a cached process that the pass skipped (it vanished, or its PID
            # was found recycled, while its info was collected) "went away":
            # its object is dropped and never yielded again, even if the PID
            # is listed again by the next pass
            for pid_, obj_ in it.cached_at_start.items():
                if pid_ in it.listing and pid_ not in got:
                    forbid(pid_, obj_)
                    labels.add("cached-process-skipped-by-a-pass")
        missing = [p for p in it.listing if p in alive_now and p not in got
                   and w.owner_inc(p) == it.inc_at_start.get(p)]
        if missing:
            refreshed = [p for p in missing
                         if p in it.flagged_at_start or p in it.stale_at_start]
            if refreshed == missing and KNOWN_REFRESH in known and not strict:
                labels.add("known:refresh-pass-omits-pid")
            else:
                raise Violation(
                    "listed-pid-not-yielded" if not refreshed else "refresh-pass-omits-pid",
                    f"complete pass over {it.listing} yielded {got}; still listed and "
                    f"unchanged: {missing}; flagged reused before the pass: "
                    f"{sorted(it.flagged_at_start)}; stale cached objects at start: "
                    f"{sorted(it.stale_at_start)}; ops {case['ops']}")
        if it.clean:
            for pid, obj in it.yielded:
                prev = expect_same.get(pid)
                # a cached object that belongs to a previous owner of the PID
                # may be replaced at any time (psutil notices the reuse by
                # itself when attrs are requested)
                if prev is not None and obj_inc.get(id(prev)) != w.owner_inc(pid):
                    prev = None
                if prev is not None and prev is not obj:
                    raise Violation(
                        "same-object",
                        f"pid {pid} stayed listed but a different object was yielded; ops {case['ops']}")
            expect_same.clear()
            for pid, obj in it.yielded:
                expect_same[pid] = obj
            labels.add("clean-pass")
        else:
            expect_same.clear()

    def new_iter(attrs_i):
        nonlocal excluded
        it = It(psutil.process_iter(ATTRS[attrs_i]), ATTRS[attrs_i])
        it.inc_at_start = {}
        its.append(it)
        return it

    with simk.installed(k):
        for i, pid in enumerate(history.PID_POOL):
            if case["setup"] >> i & 1:
                w.spawn(pid, child=bool(i & 1))
        ops = []
        for op in case["ops"]:
            if op[0] == "recycle_detect":
                ops.append(("recycle_cached", op[1], op[2]))
                ops.append(("is_running_last",))
            else:
                ops.append(op)
        last_recycled = [None]
        for op in ops:
            kind = op[0]
            if kind == "recycle_cached":
                cached = sorted(p_ for p_ in psutil._pmap if p_ in history.PID_POOL)
                if cached:
                    pid = cached[op[1] % len(cached)]
                    if w.recycle(pid, zombie=op[2]) is not None:
                        labels.add("recycle")
                        last_recycled[0] = pid
                continue
            if kind == "recycle_yielded":
                # a PID that an iterator (possibly still open, possibly the
                # very first pass) has already yielded is recycled ...
                ys = [o for o in keep if o.pid in history.PID_POOL and o.pid in k.procs]
                if ys:
                    obj = ys[op[1] % len(ys)]
                    if w.recycle(obj.pid, zombie=False) is not None:
                        labels.add("recycle")
                        last_recycled[0] = obj
                continue
            if kind == "wait_then_recycle":
                ys = [o for o in keep if o.pid in history.PID_POOL and o.pid in k.procs]
                if ys:
                    obj = ys[op[1] % len(ys)]
                    w.exit(obj.pid)
                    try:
                        obj.wait(0)
                    except psutil.Error:
                        pass
                    if op[2]:
                        w.reap(obj.pid)
                    if w.recycle(obj.pid, zombie=False) is not None:
                        labels.add("recycle")
                        labels.add("wait-on-cached-object-then-recycled")
                        last_recycled[0] = obj
                continue
            if kind == "is_running_yielded":
                # ... and the yielded object is asked is_running() while that
                # iterator has not finished (no cache entry committed yet)
                obj = last_recycled[0]
                if obj is not None and not isinstance(obj, int):
                    if not obj.is_running() and obj.pid in k.procs:
                        forbid(obj.pid, obj)
                        expect_same.pop(obj.pid, None)
                        pending_reused.add(obj.pid)
                        labels.add("reuse-detected-by-is_running-on-a-yielded-object")
                continue
            if kind == "is_running_last":
                pid = last_recycled[0]
                if not isinstance(pid, int):
                    continue
                obj = psutil._pmap.get(pid)
                if obj is not None:
                    finalise_open("is_running")
                    keep.append(obj)
                    if not obj.is_running() and pid in k.procs:
                        forbid(pid, obj)
                        expect_same.pop(pid, None)
                        pending_reused.add(pid)
                        labels.add("reuse-detected-by-is_running")
                continue
            if kind == "spawn":
                w.spawn(w.pick_pid(op[1]), child=op[2], zombie=op[3])
            elif kind == "exit":
                w.exit(w.pick_pid(op[1]))
            elif kind == "reap":
                w.reap(w.pick_pid(op[1]))
            elif kind == "recycle":
                if w.recycle(w.pick_pid(op[1]), zombie=op[2]) is not None:
                    labels.add("recycle")
            elif kind == "thread":
                pid = w.pick_pid(op[1])
                p = k.procs.get(pid)
                if p is not None:
                    tid = 7000 + len(tids)
                    tl = p.thread_list()
                    # every other thread is named like a number (its own id):
                    # "Name:\t7001" must not be taken for the Tgid line
                    p.threads = tl + [simk.Thread(tid, b"thr" if tid % 2 == 0 else str(tid).encode())]
                    tids[tid] = pid
                    labels.add("thread")
            elif kind == "hide_status":
                p = k.procs.get(w.pick_pid(op[1]))
                if p is not None:
                    p.unreadable.add("status")
                    labels.add("status-unreadable")
            elif kind in ("iter_new", "pass"):
                it = new_iter(op[1])
                if kind == "pass":
                    it.inc_at_start = {p: w.owner_inc(p) for p in listed()}
                    advance(it, None)
            elif kind in ("iter_next", "iter_finish", "iter_close", "iter_drop"):
                live = [x for x in its if not x.done]
                if not live:
                    continue
                it = live[op[1] % len(live)]
                if kind == "iter_next":
                    if not it.started:
                        it.inc_at_start = {p: w.owner_inc(p) for p in listed()}
                    advance(it, op[2])
                    labels.add("partial-consumption")
                elif kind == "iter_finish":
                    if not it.started:
                        it.inc_at_start = {p: w.owner_inc(p) for p in listed()}
                    advance(it, None)
                elif kind == "iter_close":
                    it.gen.close()
                    it.done = True
                    if it.started:
                        expect_same_keep = dict(expect_same)
                        labels.add("closed-started-iterator")
                        del expect_same_keep
                else:
                    it.done = True
                    was_started = it.started
                    it.gen = None
                    gc.collect()
                    if was_started:
                        labels.add("dropped-started-iterator")
            elif kind == "cache_clear":
                finalise_open("cache_clear")
                psutil.process_iter.cache_clear()
                for pid, obj in expect_same.items():
                    forbid(pid, obj)
                expect_same.clear()
                labels.add("cache_clear")
            elif kind == "is_running":
                finalise_open("is_running")
                cached = sorted(psutil._pmap)
                if cached:
                    pid = cached[op[1] % len(cached)]
                    obj = psutil._pmap[pid]
                    keep.append(obj)
                    r = obj.is_running()
                    if not r and pid in k.procs:
                        # recycled PID detected: the stale object must never
                        # come back and a fresh one must be yielded
                        forbid(pid, obj)
                        expect_same.pop(pid, None)
                        pending_reused.add(pid)
                        labels.add("reuse-detected-by-is_running")
            elif kind == "pid_exists":
                n = PID_EXISTS_ARGS[op[1]]
                try:
                    r = psutil.pid_exists(n)
                except Exception as e:  # noqa: BLE001
                    if n >= 0:
                        raise Violation("pid_exists-raises", f"pid_exists({n}) raised {e!r}") from None
                    raise Violation("pid_exists-raises-negative", f"pid_exists({n}) raised {e!r}") from None
                want = n in k.procs
                if r is not want:
                    raise Violation("pid_exists", f"pid_exists({n}) = {r!r}, listed: {want} "
                                    f"(tid: {n in tids})")
                if n >= 2**31:
                    labels.add("pid_exists-huge")
            elif kind == "pids":
                got = psutil.pids()
                if got != listed():
                    raise Violation("pids", f"{got} expected {listed()}")
            # TIDs are never PIDs
            for tid, pid in tids.items():
                if pid in k.procs and tid not in k.procs:
                    if psutil.pid_exists(tid) is not False:
                        raise Violation("pid_exists-tid", f"pid_exists({tid}) is not False for a thread id")
                    if tid in psutil.pids():
                        raise Violation("pids-tid", f"thread id {tid} listed")
                    break
        # convergence: once all iterators are finished two passes agree
        for o in its:
            if o.gen is not None and not o.done:
                o.gen.close()
                o.done = True
        a = {p.pid: p for p in psutil.process_iter()}
        b = {p.pid: p for p in psutil.process_iter()}
        for pid, obj in b.items():
            if pid in a and a[pid] is not obj and pid not in pending_reused:
                raise Violation("convergence", f"pid {pid}: two quiet passes yield different objects")

    sig = labels & {"recycle", "overlapping-iterators", "closed-started-iterator",
                    "dropped-started-iterator", "cache_clear",
                    "reuse-detected-by-is_running", "thread", "partial-consumption"}
    nontrivial = ",".join(sorted(sig)) if sig & {
        "recycle", "overlapping-iterators", "reuse-detected-by-is_running",
        "closed-started-iterator", "dropped-started-iterator"} else None
    return Result(sorted(labels) or ["plain"], nontrivial, {"excluded": excluded})


def run_sched(first, steps, flagged):
    """Two threads run a complete process_iter() pass at the same time
    (thread `first` is pre-empted after `steps` source lines, then the other
    runs to completion, then the rest).  Optionally a recycled PID was flagged
    by is_running() before.  Per-pass clauses only, plus convergence."""
    import os

    import psutil
    from vlib import detsched

    w = history.World()
    k = w.k
    for i, pid in enumerate(history.PID_POOL[:4]):
        w.spawn(pid)
    out = {}
    with simk.installed(k):
        orig = {p_.pid: p_ for p_ in psutil.process_iter()}
        objs_seen = {0: [], 1: []}
        if flagged:
            stale = psutil._pmap.get(history.PID_POOL[0])
            if stale is None:
                raise Violation("cache-not-updated",
                                "a complete pass left no cached object for a listed PID")
            w.recycle(history.PID_POOL[0])
            if stale.is_running():
                raise Violation("sched-setup", "recycled PID not detected")
        stale1 = None
        if flagged == 2:
            # a second recycled PID whose stale cached object is asked
            # is_running() by thread 1 WHILE thread 0 iterates
            stale1 = psutil._pmap.get(history.PID_POOL[1])
            w.recycle(history.PID_POOL[1])
        listing = sorted(k.procs)
        sched = detsched.Scheduler(os.path.dirname(psutil.__file__))

        def one(i):
            def run():
                if flagged == 2 and i == 1:
                    out[i] = stale1.is_running()
                else:
                    seen = list(psutil.process_iter())
                    objs_seen[i] = seen
                    out[i] = [p.pid for p in seen]
            return run

        try:
            _r, errors, sites = sched.run([one(0), one(1)], [(first, steps), (1 - first, 10**6)])
        except detsched.Deadlock as e:
            raise Violation("sched-deadlock", str(e)) from None
        if errors:
            e = list(errors.values())[0]
            import traceback
            raise Violation(
                "concurrent-pass-exception",
                f"two threads iterating at once (thread {first} pre-empted after {steps} lines, "
                f"flagged={flagged}): {e!r} "
                + "".join(traceback.format_exception(type(e), e, e.__traceback__))[-500:]
                + f" sites {sites}")
        if flagged == 2:
            if out[1] is not False:
                raise Violation("is_running", f"stale object of a recycled PID: is_running() = {out[1]!r}")
            # reuse was detected: whatever the interleaving, the stale object
            # must be replaced by a fresh one (two passes: the pass that
            # notices may omit the PID - recorded known finding)
            list(psutil.process_iter())
            final = {p.pid: p for p in psutil.process_iter()}
            got1 = final.get(history.PID_POOL[1])
            if got1 is stale1 or got1 is None or not got1.is_running():
                raise Violation(
                    "stale-object-yielded-again",
                    f"thread 1 found PID {history.PID_POOL[1]} recycled (is_running() False) while thread 0 "
                    f"(pre-empted: thread {first} after {steps} lines) was iterating; later passes yield "
                    f"{'the same stale object' if got1 is stale1 else repr(got1)} for it; sites {sites}")
            return
        for i in (0, 1):
            got = out[i]
            if got != sorted(got) or len(set(got)) != len(got) or set(got) - set(listing):
                raise Violation("concurrent-pass-order", f"thread {i} yielded {got}, listed {listing}")
            missing = set(listing) - set(got)
            if missing - ({history.PID_POOL[0]} if flagged else set()):
                raise Violation("concurrent-pass-missing", f"thread {i} yielded {got}, listed {listing}")
        if not flagged:
            # every PID stayed listed and nothing was found recycled: both
            # threads must have been given the very objects cached before
            for i in (0, 1):
                for o in objs_seen[i]:
                    if orig.get(o.pid) is not o:
                        raise Violation(
                            "same-object",
                            f"two threads iterating at once (thread {first} pre-empted after {steps} lines): "
                            f"thread {i} was given a new object for PID {o.pid}, which stayed listed all along; "
                            f"sites {sites}")
        a = {p.pid: p for p in psutil.process_iter()}
        b = {p.pid: p for p in psutil.process_iter()}
        if any(a[pid] is not b[pid] for pid in b if pid in a):
            raise Violation("convergence", "two quiet passes after the concurrent ones yield different objects")


def sched_tier(tier, seed, stats):
    bound = 110 if tier == "quick" else 250
    n = 0
    for flagged in (False, True, 2):
        for first in (0, 1):
            for steps in range(1, bound):
                case = {"sched": [first, steps, flagged]}
                try:
                    run_sched(first, steps, flagged)
                except Violation as v:
                    stats.fail(case, v)
                    stats.notes["schedules_enumerated"] = n
                    return
                n += 1
                stats.record(case, Result(["sched"], "sched|%d|%s|%d" % (first, flagged, min(steps, 40))),
                             keep_sample=(n == 1))
    stats.notes["schedules_enumerated"] = n


PROP = Property(
    id="C04",
    level="exploration",
    rule=("Hypothesis generates histories (<= 24 ops, thorough 48) over a "
          "simulated process table with 6 recyclable PIDs: spawn / exit / "
          "reap / recycle / extra threads between and during iterations; "
          "iterators created with 6 attrs choices, advanced by 1-4 items, "
          "finished, closed, dropped (garbage collected) at any later point, "
          "several alive at once; complete passes; cache_clear(); is_running() "
          "on cached objects; pid_exists() over listed PIDs, TIDs, absent, "
          "negative and huge numbers (2^31, 2^63, 10^30); pids().  Checked "
          "against a reference model: ascending order, only listed PIDs, every "
          "still-listed unchanged PID yielded by a complete pass, the very "
          "same object across clean passes while the PID stays listed, fresh "
          "objects after the PID was seen absent / cache_clear / reuse "
          "detection, info keys = attrs, convergence after all iterators end. "
          "Non-trivial = history with a recycle, a reuse detected by "
          "is_running(), overlapping or abandoned started iterators; distinct "
          "= multiset signature of those events."),
    strategy=strategy,
    run_case=run_case,
    budgets={"quick": 20000, "thorough": 150000},
    extra_tiers=[("sched", sched_tier)],
    assumptions=[
        "a listed PID that vanishes between the listing and its turn may be yielded or skipped",
        "object identity is asserted between passes during which no other iterator advanced",
        "single thread; the two-thread quantifier is explored only at call granularity (sequential interleaving of iterator steps)",
    ],
    trusted_base=["vlib/simk.py", "vlib/history.py", "hypothesis"],
)

if __name__ == "__main__":
    main(PROP, "props.c04_iter")
