"""C14 - open_files(), num_fds() and io_counters() reflect the descriptor table.

Domain: generated fd tables (every kind of target, offsets to 2^63, access
mode 0-3 x flag subsets), descriptors closing at any OS access of the scan,
generated /proc/<pid>/io contents.  Oracle: the model table.  Live tier: real
descriptors opened with sampled flag combinations vs lseek/fcntl.
"""

import fcntl
import os
import tempfile

from hypothesis import strategies as st

from vlib import simk
from vlib.runner import Property
from vlib.runner import Result
from vlib.runner import Violation
from vlib.runner import main

ROOT = "/simroot"
FLAGBITS = {
    "O_APPEND": 0o2000, "O_CREAT": 0o100, "O_TRUNC": 0o1000, "O_EXCL": 0o200,
    "O_NONBLOCK": 0o4000, "O_CLOEXEC": 0o2000000, "O_LARGEFILE": 0o100000,
    "O_DIRECT": 0o40000, "O_NOATIME": 0o1000000, "O_PATH": 0o10000000,
    "O_SYNC": 0o4010000, "O_DIRECTORY": 0o200000,
}
KINDS = ["reg", "reg", "reg", "reg-space", "reg-deleted-gone", "reg-deleted-kept",
         "reg-deleted-literal", "relative", "dir", "chardev", "socket", "pipe",
         "anon_inode", "missing-target", "reg-nul", "reg-devshm", "reg-symlink"]

IO_NAMES = ["rchar", "wchar", "syscr", "syscw", "read_bytes", "write_bytes",
            "cancelled_write_bytes"]


def fd_st():
    return st.fixed_dictionaries(dict(
        kind=st.sampled_from(KINDS),
        pos=st.one_of(st.sampled_from([0, 1, 4096, 2**31, 2**32, 2**63 - 1, 2**63]),
                      st.integers(0, 2**40)),
        acc=st.sampled_from([0, 1, 2, 0, 1, 2, 3]),
        flags=st.sets(st.sampled_from(sorted(FLAGBITS)), max_size=4),
    ))


def io_line():
    good = st.tuples(st.sampled_from(IO_NAMES), st.integers(0, 2**64 - 1))
    return good


def strategy(tier):
    nmax = 12 if tier == "quick" else 40
    return st.fixed_dictionaries(dict(
        fds=st.dictionaries(st.one_of(st.integers(0, 20), st.sampled_from([0, 1, 2, 255, 1023, 65535])),
                            fd_st(), max_size=nmax),
        # fault: close descriptor (index into sorted fds) before access k (mod N)
        closes=st.lists(st.tuples(st.integers(0, 50), st.integers(0, 400)), max_size=2),
        oneshot=st.booleans(),   # all calls inside one `with p.oneshot():` block
        io=st.fixed_dictionaries(dict(
            vals=st.lists(st.one_of(st.sampled_from([0, 1, 2**32, 2**63, 2**64 - 1]),
                                    st.integers(0, 2**40)), min_size=7, max_size=7),
            order=st.permutations(list(range(7))),
            extras=st.lists(st.tuples(
                st.integers(0, 7),
                st.sampled_from([b"", b"   ", b"garbage", b"no_colon_space:1",
                                 b"foo: bar", b"foo: 1 2", b"foo: ", b": 5",
                                 b"new_counter: 123", b"a: b: c", b"\t",
                                 b"foo:  7"])), max_size=4),
            drop_cancelled=st.booleans(),
        )),
    ))


def target_of(kind, fd):
    # file names ending in characters of " (deleted)" itself, too
    base = f"{ROOT}/data/file{fd}" + ("", ".txt", "-deleted", " (old)", ".d")[fd % 5]
    if kind == "reg":
        return base, base
    if kind == "reg-devshm":
        # a regular file that lives under /dev (POSIX shared memory, semaphores)
        return f"/dev/shm/psv-{fd}", f"/dev/shm/psv-{fd}"
    if kind == "reg-symlink":
        # the reported path has since become a symbolic link to a regular
        # file ("current.log -> log.2024"): the regular-file test follows it
        return f"{ROOT}/links/current{fd}.log", f"{ROOT}/links/current{fd}.log"
    if kind == "reg-space":
        return f"{ROOT}/my dir/file {fd}.txt", f"{ROOT}/my dir/file {fd}.txt"
    if kind == "reg-deleted-gone":
        # deleted file: neither the literal nor the stripped path exists
        return base + " (deleted)", None
    if kind == "reg-deleted-kept":
        # ' (deleted)' suffix is bogus: the stripped path exists
        return base + " (deleted)", base
    if kind == "reg-deleted-literal":
        # a file literally called '... (deleted)'
        return base + " (deleted)", base + " (deleted)"
    if kind == "reg-nul":
        return base + "\x00junk", base
    if kind == "relative":
        # a relative target that *does* exist relative to the harness cwd
        # (/verif): it must still be left out
        return ("check" if os.path.isfile("check") else f"relative/file{fd}"), None
    if kind == "dir":
        return f"{ROOT}/dir{fd}", None
    if kind == "chardev":
        return "/dev/null", None
    if kind == "socket":
        return f"socket:[{1000 + fd}]", None
    if kind == "pipe":
        return f"pipe:[{2000 + fd}]", None
    if kind == "anon_inode":
        return "anon_inode:[eventfd]", None
    if kind == "missing-target":
        return f"{ROOT}/nowhere/file{fd}", None
    raise AssertionError(kind)


def exp_mode(flags):
    acc = flags & 3
    app = bool(flags & 0o2000)
    if acc == 0:
        return "r"
    if acc == 1:
        return "a" if app else "w"
    if acc == 2:
        return "a+" if app else "r+"
    return None  # access mode 3: any string


def build(case):
    k = simk.Kernel()
    pid = 600
    fds = {}
    exp = {}
    k.set_file("/dev/null", simk.Dev(0x103))
    for fd, d in sorted(case["fds"].items()):
        fd = int(fd)
        tgt, listed_path = target_of(d["kind"], fd)
        flags = d["acc"]
        for name in d["flags"]:
            flags |= FLAGBITS[name]
        fds[fd] = simk.FD(tgt, d["pos"], flags, d["kind"])
        # what the kernel appends to fdinfo for locked files, epoll / inotify /
        # eventfd descriptors (fs/locks.c, fs/eventpoll.c, fs/notify/fdinfo.c)
        fds[fd].extra = [b"", b"", b"lock:\t1: FLOCK  ADVISORY  WRITE 4242 fd:01:5678 0 EOF\n",
                         b"lock:\t1: POSIX  ADVISORY  READ 4242 08:02:1 0 EOF\nlock:\t2: LEASE  ACTIVE    READ 1 08:02:1 0 EOF\n",
                         b"tfd:        5 events:       19 data:                5  pos:0 ino:61af sdev:7\n",
                         b"inotify wd:1 ino:1 sdev:800013 mask:800afce ignored_mask:0 fhandle-bytes:8 fhandle-type:1 f_handle:0\n",
                         b"eventfd-count:                0\neventfd-id: 3\n"][(fd * 7 + d["pos"]) % 7]
        if d["kind"] in ("reg", "reg-space", "reg-deleted-kept", "reg-nul", "reg-devshm"):
            k.set_file(listed_path, b"data")
        elif d["kind"] == "reg-deleted-literal":
            k.set_file(listed_path, b"data")
        elif d["kind"] == "reg-symlink":
            k.set_file(f"{ROOT}/links/dated{fd}.log", b"data")
            k.set_file(listed_path, simk.Link(f"{ROOT}/links/dated{fd}.log"))
        elif d["kind"] == "dir":
            k.mkdir(tgt)
        if listed_path is not None:
            exp[fd] = (listed_path, fd, d["pos"], exp_mode(flags), flags)
    io = case["io"]
    lines = []
    vals = dict(zip(IO_NAMES, io["vals"]))
    names = [IO_NAMES[i] for i in io["order"]]
    if io["drop_cancelled"]:
        names.remove("cancelled_write_bytes")
    for n in names:
        lines.append(b"%s: %d" % (n.encode(), vals[n]))
    for pos, raw in io["extras"]:
        lines.insert(min(pos, len(lines)), raw)
    io_blob = b"\n".join(lines) + b"\n"
    k.spawn(pid, fds=fds, io=io_blob)
    return k, pid, exp, vals


def run_case(case):
    import psutil

    k, pid, exp, io_vals = build(case)
    labels = set()
    got_again = None
    import contextlib
    with simk.installed(k), contextlib.ExitStack() as stack:
        p = psutil.Process(pid)
        if case.get("oneshot"):
            stack.enter_context(p.oneshot())
            labels.add("inside-oneshot")

        def safe(name, fn):
            try:
                return fn()
            except Exception as e:  # noqa: BLE001
                import traceback
                raise Violation(name + "-exception", f"{e!r} " + traceback.format_exc()[-500:]) from None

        n0 = len(k.log)
        files = safe("open_files", p.open_files)
        n_acc = len(k.log) - n0
        nfds = safe("num_fds", p.num_fds)
        io = safe("io_counters", p.io_counters)

        def check_files(files, must, may, what):
            got = {}
            for f in files:
                if f._fields != ("path", "fd", "position", "mode", "flags"):
                    raise Violation("open_files-fields", repr(f._fields))
                if f.fd in got:
                    raise Violation("open_files-duplicate", f"fd {f.fd} listed twice")
                got[f.fd] = f
            for fd in must:
                if fd not in got:
                    raise Violation("open_files-missing", f"{what}: fd {fd} -> {exp[fd][0]!r} not listed; got {files!r}")
            for fd, f in got.items():
                if fd not in may:
                    raise Violation("open_files-extra", f"{what}: fd {fd} listed as {f!r} (table {case['fds'].get(fd)})")
                e = exp[fd]
                if (f.path, f.fd, f.position, f.flags) != (e[0], e[1], e[2], e[4]) \
                        or (e[3] is not None and f.mode != e[3]) \
                        or not isinstance(f.mode, str):
                    raise Violation("open_files-values", f"{what}: {f!r} expected {e}")

        check_files(files, set(exp), set(exp), "fault-free")
        if nfds != len(case["fds"]):
            raise Violation("num_fds", f"{nfds} expected {len(case['fds'])}")
        want = (io_vals["syscr"], io_vals["syscw"], io_vals["read_bytes"],
                io_vals["write_bytes"], io_vals["rchar"], io_vals["wchar"])
        if io._fields != ("read_count", "write_count", "read_bytes", "write_bytes",
                          "read_chars", "write_chars") or tuple(io) != want:
            raise Violation("io_counters", f"{io!r} expected {want}")

        # descriptors closing during the scan
        sorted_fds = sorted(int(x) for x in case["fds"])
        if sorted_fds and n_acc and case["closes"]:
            proc = k.procs[pid]
            saved = dict(proc.fds)
            closed = set()
            faults = []
            for idx, kk in case["closes"]:
                fd = sorted_fds[idx % len(sorted_fds)]
                closed.add(fd)
                faults.append(simk.Fault(kk % n_acc, "closefd", pid, fd))
            k.arm(faults)
            try:
                files2 = p.open_files()
            except Exception as e:  # noqa: BLE001
                import traceback
                raise Violation(
                    "open_files-closing-fd",
                    f"fd(s) {sorted(closed)} closing at access(es) "
                    f"{[f.k for f in faults]} of {n_acc}: {e!r} " + traceback.format_exc()[-300:]) from None
            finally:
                k.arm([])
                proc.fds = saved
            check_files(files2, set(exp) - closed, set(exp), "closing")
            labels.add("fd-closing-mid-scan")
        # one more descriptor is opened; the same object is asked again
        k.set_file(f"{ROOT}/data/late", b"x")
        k.procs[pid].fds[4000] = simk.FD(f"{ROOT}/data/late", 0, 0o100000, "reg")
        got_again = (safe("num_fds", p.num_fds), safe("open_files", p.open_files))
        del k.procs[pid].fds[4000]

    kinds = {d["kind"] for d in case["fds"].values()}
    if got_again is not None:
        n2, files2b = got_again
        if n2 != len(case["fds"]) + 1:
            raise Violation("num_fds", f"after one more descriptor was opened: {n2} expected {len(case['fds']) + 1}"
                                       f" (inside one oneshot block: {bool(case.get('oneshot'))})")
        if not any(f.fd == 4000 and f.path == f"{ROOT}/data/late" for f in files2b):
            raise Violation("open_files-missing", f"descriptor 4000 opened after the first call is not listed: {files2b!r}")
        labels.add("descriptor-opened-between-two-calls")
    if len(kinds) >= 3:
        labels.add("kinds>=3")
    if any("O_APPEND" in d["flags"] for d in case["fds"].values()):
        labels.add("O_APPEND")
    if any(d["acc"] == 3 for d in case["fds"].values()):
        labels.add("access-mode-3")
    if any(k_.startswith("reg-deleted") for k_ in kinds):
        labels.add("deleted-suffix")
    if any(d["pos"] >= 2**63 - 1 for d in case["fds"].values()):
        labels.add("pos>=2^63-1")
    if case["io"]["extras"]:
        labels.add("io-extra-lines")
    if not case["fds"]:
        labels.add("empty-table")
    nontrivial = None
    if labels - {"empty-table"}:
        nontrivial = ",".join(sorted(labels)) + "|" + ",".join(sorted(kinds))[:80]
    return Result(sorted(labels) or ["plain"], nontrivial)


# ---------------------------------------------------------------- live tier


def live_tier(tier, seed, stats):
    """Real descriptors: psutil.Process().open_files() vs lseek / F_GETFL."""
    import psutil

    d = tempfile.mkdtemp(prefix="psv-c14-", dir=os.environ.get("VERIF_SCRATCH"))
    path = os.path.join(d, "f")
    with open(path, "wb") as f:
        f.write(b"x" * 10000)
    combos = []
    for acc in (os.O_RDONLY, os.O_WRONLY, os.O_RDWR, 3):
        for extra in (0, os.O_APPEND, os.O_NONBLOCK, os.O_APPEND | os.O_NONBLOCK,
                      os.O_CLOEXEC, os.O_NOATIME, os.O_SYNC, os.O_CREAT,
                      os.O_APPEND | os.O_CREAT):
            combos.append(acc | extra)
    me = psutil.Process()
    n = 0
    try:
        for i, flags in enumerate(combos):
            try:
                fd = os.open(path, flags, 0o600)
            except OSError:
                continue
            try:
                pos = (i * 37) % 9000
                try:
                    os.lseek(fd, pos, os.SEEK_SET)
                except OSError:
                    pos = None
                case = {"live_flags": oct(flags), "fd": fd}
                try:
                    files = me.open_files()
                except Exception as e:  # noqa: BLE001
                    from vlib.runner import Violation as V
                    stats.fail(case, V("live-open_files-exception", f"flags {oct(flags)}: {e!r}"))
                    continue
                mine = [f for f in files if f.fd == fd]
                fl = fcntl.fcntl(fd, fcntl.F_GETFL)
                if len(mine) != 1 or mine[0].path != path \
                        or (pos is not None and mine[0].position != os.lseek(fd, 0, os.SEEK_CUR)) \
                        or (mine[0].flags & ~os.O_CLOEXEC) != fl \
                        or ((fl & 3) != 3 and mine[0].mode != exp_mode(fl)):
                    from vlib.runner import Violation as V
                    stats.fail(case, V("live-open_files", f"{mine!r} expected path={path} pos={pos} F_GETFL={oct(fl)}"))
                    continue
                n += 1
                stats.record(case, Result(["live-fd", "live-acc%d" % (fl & 3)],
                                          "live|" + oct(fl)), keep_sample=(n <= 1))
            finally:
                os.close(fd)
    finally:
        os.unlink(path)
        os.rmdir(d)
    stats.notes["live_descriptors_checked"] = n


PROP = Property(
    prelude=True,
    id="C14",
    level="exploration",
    rule=("Hypothesis generates fd tables of 0-12 (thorough 40) descriptors "
          "of every kind (regular, with spaces, ' (deleted)' in the three "
          "existence situations, NUL garbage, relative, directory, char "
          "device, socket, pipe, anon_inode, dangling), offsets to 2^63, "
          "access mode 0-3 x subsets of 12 open flags, up to two descriptors "
          "closing just before a generated OS access of the scan, and "
          "/proc/<pid>/io contents with permuted counters and blank / "
          "malformed / unknown extra lines; results are compared with the "
          "model table.  A live tier opens a real file with 36 flag "
          "combinations (incl. access mode 3) and compares open_files() with "
          "lseek/F_GETFL.  Non-trivial = >=3 kinds, O_APPEND, access mode 3, "
          "deleted suffix, a descriptor closing mid-scan, extra io lines; "
          "distinct = label set x kind set."),
    strategy=strategy,
    run_case=run_case,
    budgets={"quick": 8000, "thorough": 240000},
    extra_tiers=[("live", live_tier)],
    assumptions=[
        "for access mode 3 any mode string is accepted (the call must not fail)",
        "a descriptor that closes during the scan may or may not be listed",
    ],
    trusted_base=["vlib/simk.py fd/fdinfo/io files and fault plan", "hypothesis"],
)

if __name__ == "__main__":
    main(PROP, "props.c14_fds")
