"""C12 - cmdline/environ/exe/cwd and extended name() decode what the kernel
exposes.

Domain: argv lists and rewritten-title blobs, environment blocks, link
targets (NUL garbage, ' (deleted)', withheld), (comm, argv[0]) pairs around
the 15-byte boundary, exe() fallback candidates.  Oracle: inverse of the
kernel's rendering.
"""

from hypothesis import strategies as st

from vlib import gen
from vlib import simk
from vlib.runner import Property
from vlib.runner import Result
from vlib.runner import Violation
from vlib.runner import main

ROOT = "/simroot"

ARG_DICT = [b"", b" ", b"a b", b"-x", b"--long=1", b"\xff", b"\xc3\xa9", b"=",
            b"a=b", b"/simroot/bin/tool", b"tool", b"\xe2\x82", b"  ", b"x "]


def arg():
    return st.one_of(st.sampled_from(ARG_DICT),
                     st.binary(max_size=6).map(lambda b: b.replace(b"\0", b"")),
                     st.text("abc/-. ", max_size=8).map(str.encode))


def env_entry():
    name = st.sampled_from([b"PATH", b"HOME", b"A", b"LANG", b"X_Y", b"\xc3\xa9", b"a b"])
    val = st.one_of(st.sampled_from([b"", b"/bin:/usr/bin", b"a=b", b"==", b" ",
                                     b"\xff\xfe", b"v"]),
                    st.binary(max_size=5).map(lambda b: b.replace(b"\0", b"")))
    good = st.tuples(name, val).map(lambda t: t[0] + b"=" + t[1])
    noeq = st.sampled_from([b"NOEQUALS", b"x", b"garbage here"])
    lead = st.sampled_from([b"=x", b"=", b"=A=B"])
    return st.one_of(good, good, good, good, noeq, lead)


COMM15 = [
    b"gnome-keyring-d",            # 15 ASCII bytes
    b"123456789012345",
    b"\xc3\xa9" * 7 + b"a",        # 15 bytes, 8 characters
    b"\xe2\x82\xac" * 5,           # 15 bytes, 5 characters
    b"abcdefghijklm\xc3\xa9",      # 15 bytes ending in a complete 2-byte char
    b"abcdefghijklmn\xc3",         # 15 bytes, cut inside a 2-byte char
    b"abcdefghijkl\xff\xfe\xfd",   # 15 bytes, non UTF-8
    b"a b c d e f g h",            # 15 bytes with spaces
]


def strategy(tier):
    comm_st = st.one_of(
        st.sampled_from(COMM15),
        st.sampled_from([b"short", b"12345678901234", b"", b"py"]),
        st.binary(min_size=15, max_size=15).map(
            lambda b: b.replace(b"\0", b"x").replace(b"/", b"_")),
        # names with parentheses / spaces / state-letter look-alikes: the
        # zombie probe and name() must still find the real state field
        gen.comm().map(lambda b: b.replace(b"/", b"_")),
    )
    return st.fixed_dictionaries(dict(
        comm=comm_st,
        argv_mode=st.sampled_from(["argv", "argv", "argv", "title", "title-nul",
                                   "title-space", "empty", "from-comm",
                                   "from-comm", "from-comm"]),
        argv=st.lists(arg(), max_size=6),
        title=st.sampled_from([b"nginx: worker process", b"postgres: writer",
                               b"single", b"a  b", b" lead", b"sshd: user@pts/0"]),
        suffix=st.sampled_from([b"aemon", b"", b"-extended", b"\xa9rest", b" x"]),
        dirpart=st.sampled_from([b"", b"/simroot/bin/", b"./", b"/simroot/my dir/"]),
        env=st.lists(env_entry(), max_size=7),
        env_tail=st.sampled_from([b"", b"", b"\0garbage=1\0", b"\0\0\0", b"\0x"]),
        exe=st.sampled_from(["plain", "plain", "nul", "deleted-gone",
                             "deleted-exists", "withheld", "withheld",
                             "withheld", "deleted-then-nul", "nul-then-deleted"]),
        cwd=st.sampled_from(["plain", "nul", "deleted-gone", "deleted-exists",
                             "withheld", "deleted-then-nul", "nul-then-deleted"]),
        cand=st.sampled_from(["file-x", "file-x", "file-nox", "dir", "absent"]),
        zombie=st.sampled_from([False, False, False, False, True]),
        # how the kernel withholds a link of a live process: readlink fails
        # with ENOENT or (psutil issue 503) with ESRCH
        withheld_errno=st.sampled_from(["ENOENT", "ENOENT", "ESRCH"]),
        # all calls made inside one `with p.oneshot():` block
        oneshot=st.booleans(),
    ))


def link_target(kind, base, k):
    """Return (target string as the kernel gives it, expected cleaned value)."""
    if kind == "plain":
        return base, base
    if kind == "nul":
        return base + "\x00 (deleted)\x00junk", base
    if kind == "deleted-then-nul":
        # stale suffix first, then NUL garbage: cut at the NUL, then drop the suffix
        return base + " (deleted)\x00junk", base
    if kind == "nul-then-deleted":
        return base + "\x00new (deleted)", base
    if kind == "deleted-gone":
        return base + " (deleted)", base
    if kind == "deleted-exists":
        k.set_file(base + " (deleted)", b"x")
        return base + " (deleted)", base + " (deleted)"
    return None, ""


def run_case(case):
    import psutil
    from psutil import _common as C

    dec = lambda b: b.decode(C.ENCODING, C.ENCODING_ERRS)  # noqa: E731
    k = simk.Kernel()
    pid = 500
    comm = case["comm"]
    mode = case["argv_mode"]
    argv = list(case["argv"])
    if mode == "from-comm":
        # argv[0] = some directory + comm + suffix: the classic truncated name
        argv = [case["dirpart"] + comm + case["suffix"]] + argv[:2]
        mode = "argv"
    if (case["exe"] == "withheld" and case["cand"] != "absent" and mode == "argv"
            and argv and not argv[0].startswith(b"/")):
        # make cmdline()[0] an absolute path so the exe() fallback is reached
        argv[0] = b"/simroot/bin/" + (argv[0].replace(b"/", b"_") or b"x")
    ambiguous = False
    if mode == "empty" or (mode == "argv" and not argv):
        blob = b""
        exp_cmdline = []
    elif mode == "argv":
        blob = b"\0".join(argv) + b"\0"
        exp_cmdline = [dec(a) for a in argv]
        if len(argv) == 1 and b" " in argv[0]:
            ambiguous = True
    else:
        t = case["title"]
        if mode == "title":
            blob = t
        elif mode == "title-nul":
            blob = t + b"\0"
        else:
            blob = t + b" "
        exp_cmdline = dec(t).split(" ")
    # the kernel cannot produce an argv whose *only* content is one empty
    # string followed by NUL -> b"\0": keep it (psutil: [''])
    env_blob = b"".join(e + b"\0" for e in case["env"] if e != b"") + case["env_tail"]
    exp_env = {}
    for e in case["env"]:
        if e == b"":
            break
        if b"=" in e and not e.startswith(b"="):
            n, v = e.split(b"=", 1)
            exp_env[dec(n)] = dec(v)
    lead_eq = any(e.startswith(b"=") for e in case["env"])

    exe_t, exp_exe = link_target(case["exe"], ROOT + "/bin/realexe", k)
    cwd_t, exp_cwd = link_target(case["cwd"], ROOT + "/work dir", k)
    if case.get("withheld_errno") == "ESRCH" and not case["zombie"]:
        import errno as _errno
        if exe_t is None:
            exe_t = _errno.ESRCH
        if cwd_t is None:
            cwd_t = _errno.ESRCH
    k.spawn(pid, comm=comm, cmdline=blob, environ=env_blob, exe=exe_t, cwd=cwd_t,
            zombie=case["zombie"], state=b"Z" if case["zombie"] else b"S")
    # candidate for the exe() fallback: cmdline()[0]
    cand = exp_cmdline[0] if exp_cmdline else None
    cand_ok = False
    if cand is not None and cand.startswith(ROOT + "/") and "\x00" not in cand \
            and not cand.endswith("/"):
        try:
            cand.encode("utf-8")
            encodable = True
        except UnicodeEncodeError:
            encodable = False
        if encodable:
            if case["cand"] in ("file-x", "file-nox"):
                k.set_file(cand, b"\x7fELF")
                if case["cand"] == "file-nox":
                    k.noexec.add(cand)
                else:
                    cand_ok = True
            elif case["cand"] == "dir":
                k.mkdir(cand)
    zombie = case["zombie"]
    labels = set()
    out = {}
    with simk.installed(k):
        p = psutil.Process(pid)

        def call(name, fn):
            try:
                out[name] = ("ok", fn())
            except psutil.ZombieProcess as e:
                out[name] = ("zombie", e)
            except psutil.AccessDenied as e:
                out[name] = ("ad", e)
            except psutil.NoSuchProcess as e:
                out[name] = ("nsp", e)
            except Exception as e:  # noqa: BLE001
                import traceback
                raise Violation(name + "-exception", f"{e!r} " + traceback.format_exc()[-400:]) from None

        import contextlib
        with (p.oneshot() if case.get("oneshot") else contextlib.nullcontext()):
            call("cmdline", p.cmdline)
            call("environ", p.environ)
            call("exe", p.exe)
            n0 = len(k.log)
            call("exe2", p.exe)
            n1 = len(k.log)
            call("cwd", p.cwd)
            call("name", p.name)
        if case.get("oneshot"):
            labels.add("inside-oneshot")

    # ---- cmdline
    kind, val = out["cmdline"]
    if zombie:
        if kind != "zombie":
            raise Violation("cmdline-zombie", f"zombie cmdline gave {kind} {val!r}")
        labels.add("zombie")
        if b")" in comm:
            labels.add("zombie-name-with-rpar")
    else:
        if kind != "ok":
            raise Violation("cmdline", f"{kind} {val!r}")
        if ambiguous:
            if val not in (exp_cmdline, exp_cmdline[0].split(" ")):
                raise Violation("cmdline", f"{val!r} expected {exp_cmdline!r} (or its split on spaces)")
            labels.add("ambiguous-single-arg-with-space")
        elif val != exp_cmdline:
            raise Violation("cmdline", f"{val!r} expected {exp_cmdline!r} from blob {blob!r}")
    # ---- environ
    kind, val = out["environ"]
    if zombie:
        if kind not in ("zombie", "nsp") and not (kind == "ok" and val == {}):
            raise Violation("environ-zombie", f"{kind} {val!r}")
    else:
        if kind != "ok":
            raise Violation("environ", f"{kind} {val!r}")
        if not lead_eq and val != exp_env:
            raise Violation("environ", f"{val!r} expected {exp_env!r} from {env_blob!r}")
        if lead_eq:
            # entries starting with '=' are crash-freedom only; the rest must match
            if {n: v for n, v in val.items() if n in exp_env} != exp_env:
                raise Violation("environ", f"{val!r} lacks {exp_env!r}")
    # ---- exe
    kind, val = out["exe"]
    if zombie:
        if kind != "zombie":
            raise Violation("exe-zombie", f"{kind} {val!r}")
    else:
        if kind != "ok":
            raise Violation("exe", f"{kind} {val!r}")
        want = exp_exe
        if case["exe"] == "withheld":
            want = cand if cand_ok else ""
            labels.add("exe-withheld-fallback" if cand_ok else "exe-withheld-empty")
        if val != want and not (ambiguous and case["exe"] == "withheld"
                                and val in ("", cand)):
            raise Violation("exe", f"{val!r} expected {want!r} (link {exe_t!r}, "
                            f"candidate {cand!r} usable={cand_ok})")
        if out["exe2"] != out["exe"]:
            raise Violation("exe-cache", f"second call {out['exe2']!r} first {out['exe']!r}")
        if n1 != n0:
            raise Violation("exe-cache", f"second exe() made {n1 - n0} OS accesses")
    # ---- cwd
    kind, val = out["cwd"]
    if zombie:
        if kind != "zombie":
            raise Violation("cwd-zombie", f"{kind} {val!r}")
    else:
        if kind != "ok" or val != exp_cwd:
            raise Violation("cwd", f"{kind} {val!r} expected {exp_cwd!r} (link {cwd_t!r})")
    # ---- name
    kind, val = out["name"]
    if kind != "ok":
        raise Violation("name", f"{kind} {val!r}")
    want = dec(comm)
    if len(comm) == 15 and not zombie and exp_cmdline:
        first = argv[0] if mode == "argv" else exp_cmdline[0].encode(C.ENCODING, C.ENCODING_ERRS)
        base = first.rsplit(b"/", 1)[-1]
        if base.startswith(comm):
            want = dec(base)
            labels.add("name-extended")
        else:
            labels.add("name-15-not-prefix")
    if val != want and not (ambiguous and len(comm) == 15):
        raise Violation("name", f"{val!r} expected {want!r} (comm {comm!r}, cmdline {exp_cmdline[:1]!r})")

    # ---- classification
    if not zombie:
        if mode == "argv" and any(a == b"" for a in argv):
            labels.add("empty-arg")
        if mode == "argv" and argv and argv[-1] == b"":
            labels.add("trailing-empty-arg")
        if mode in ("title", "title-nul", "title-space"):
            labels.add(mode)
        for a in argv if mode == "argv" else []:
            try:
                a.decode("utf-8")
            except UnicodeDecodeError:
                labels.add("non-utf8-arg")
        names = [e.split(b"=", 1)[0] for e in case["env"] if b"=" in e]
        if len(names) != len(set(names)):
            labels.add("duplicate-env-key")
        if any(b"=" not in e for e in case["env"]):
            labels.add("env-no-equals")
        if case["env_tail"]:
            labels.add("env-trailing-garbage")
        labels.add("exe-" + case["exe"])
        labels.add("cwd-" + case["cwd"])
        if len(comm) == 15:
            labels.add("comm15")
            try:
                if len(comm.decode("utf-8")) < 15:
                    labels.add("comm15-multibyte")
            except UnicodeDecodeError:
                labels.add("comm15-nonutf8")
    edge = labels - {"exe-plain", "cwd-plain"}
    nontrivial = ",".join(sorted(edge)) if edge else None
    return Result(sorted(labels) or ["plain"], nontrivial)


PROP = Property(
    prelude=True,
    id="C12",
    level="exploration",
    rule=("Hypothesis generates argv lists (empty args, spaces, non-UTF-8), "
          "rewritten-title blobs (no NUL, trailing NUL, trailing space), "
          "environment blocks (duplicates, '=' in values, entries without '=', "
          "garbage after an empty entry), exe/cwd link targets (NUL garbage, "
          "' (deleted)' with the literal path existing or not, withheld), "
          "exe() fallback candidates (executable file, non-executable, "
          "directory, absent) and (comm, argv[0]) pairs around the 15-byte "
          "boundary incl. multi-byte and non-UTF-8 names; the public methods "
          "are compared with the inverse of the kernel's rendering.  "
          "Non-trivial = a blob/target/name in an edge class; distinct = set "
          "of edge classes."),
    strategy=strategy,
    run_case=run_case,
    budgets={"quick": 12000, "thorough": 400000},
    assumptions=[
        "a single NUL-terminated argument containing spaces is "
        "indistinguishable from a rewritten title: both answers accepted",
        "environment entries beginning with '=' are crash-freedom only",
        "zombie: cmdline/exe/cwd must raise ZombieProcess",
    ],
    trusted_base=["vlib/simk.py process files", "hypothesis"],
)

if __name__ == "__main__":
    main(PROP, "props.c12_cmdline")
