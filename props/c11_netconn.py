"""C11 - net_connections(): every socket once, right kind, addresses, owner.

Domain: generated socket tables (/proc/net/{tcp,tcp6,udp,udp6,unix}) and
holder processes (fd -> socket:[inode]); all 11 kinds, system-wide and
per-process.  Oracle: the model (addresses rendered to text by inet_ntop on
the model's network-order bytes), compared as sets.
"""

import os
import socket
import struct
import tempfile

from hypothesis import strategies as st

from vlib import simk
from vlib.runner import HarnessError
from vlib.runner import Property
from vlib.runner import Result
from vlib.runner import Violation
from vlib.runner import main

KINDS = ["all", "tcp", "tcp4", "tcp6", "udp", "udp4", "udp6", "unix", "inet",
         "inet4", "inet6"]
KIND_TABLE = {   # documentation table: kind -> {(family, proto)}
    "inet": {(4, "tcp"), (6, "tcp"), (4, "udp"), (6, "udp")},
    "inet4": {(4, "tcp"), (4, "udp")},
    "inet6": {(6, "tcp"), (6, "udp")},
    "tcp": {(4, "tcp"), (6, "tcp")},
    "tcp4": {(4, "tcp")},
    "tcp6": {(6, "tcp")},
    "udp": {(4, "udp"), (6, "udp")},
    "udp4": {(4, "udp")},
    "udp6": {(6, "udp")},
    "unix": {("unix", None)},
    "all": {(4, "tcp"), (6, "tcp"), (4, "udp"), (6, "udp"), ("unix", None)},
}
TCP_STATES = {1: "ESTABLISHED", 2: "SYN_SENT", 3: "SYN_RECV", 4: "FIN_WAIT1",
              5: "FIN_WAIT2", 6: "TIME_WAIT", 7: "CLOSE", 8: "CLOSE_WAIT",
              9: "LAST_ACK", 10: "LISTEN", 11: "CLOSING"}

IP4 = [bytes([127, 0, 0, 1]), bytes(4), bytes([10, 0, 0, 5]), bytes([255] * 4),
       bytes([192, 168, 1, 254]), bytes([1, 2, 3, 4]), bytes([169, 254, 0, 1])]
IP6 = [bytes(16), bytes(15) + b"\x01", bytes(10) + b"\xff\xff" + bytes([127, 0, 0, 1]),
       bytes.fromhex("fe80000000000000021122fffe334455"),
       bytes.fromhex("20010db8000000000000000000000001"), bytes([255] * 16),
       bytes(12) + bytes([1, 2, 3, 4]), bytes.fromhex("0064ff9b0000000000000000c0000201")]
UNIX_PATHS = [None, None, "/run/dbus/system_bus_socket", "/tmp/my socket",
              "/tmp/a  b", "@abstract", "@/tmp/.X11-unix/X0", "@", "/tmp/x y z.sock",
              "/run/user/1000/\xe9", "@with space", "/tmp/trailing "]


def ip4():
    return st.one_of(st.sampled_from(IP4), st.binary(min_size=4, max_size=4))


def ip6():
    return st.one_of(st.sampled_from(IP6), st.binary(min_size=16, max_size=16))


def port():
    return st.one_of(st.sampled_from([0, 0, 1, 22, 80, 443, 40521, 65535]),
                     st.integers(0, 65535))


def holder():
    return st.tuples(st.integers(0, 4), st.sampled_from([0, 3, 4, 5, 17, 255, 1023]))


def inet_sock():
    return st.fixed_dictionaries(dict(
        proto=st.sampled_from(["tcp", "udp"]),
        fam=st.sampled_from([4, 6]),
        l4=ip4(), r4=ip4(), l6=ip6(), r6=ip6(),
        lport=port(), rport=port(),
        state=st.integers(1, 11),
        holders=st.lists(holder(), max_size=4, unique=True),
        # a socket no longer attached to a file (TIME_WAIT, SYN_RECV, orphaned
        # FIN_WAIT): the kernel prints inode 0 for every one of them
        orphan=st.sampled_from([False, False, True]),
    ))


def unix_sock():
    return st.fixed_dictionaries(dict(
        type=st.sampled_from([1, 2, 5]),
        path=st.integers(0, len(UNIX_PATHS) - 1),
        state=st.sampled_from([1, 3]),
        holders=st.lists(holder(), max_size=4, unique=True),
        # a connection still in a listener's accept backlog: not attached to
        # a file yet, the kernel prints inode 0 (like orphaned inet sockets)
        orphan=st.sampled_from([False, False, False, True]),
    ))


def strategy(tier):
    nmax = 8 if tier == "quick" else 24
    return st.fixed_dictionaries(dict(
        inet=st.lists(inet_sock(), max_size=nmax),
        unix=st.lists(unix_sock(), max_size=nmax),
        unreadable=st.sets(st.integers(0, 4), max_size=2),
        other_fds=st.lists(st.tuples(st.integers(0, 4),
                                     st.sampled_from(["/dev/null", "pipe:[77]",
                                                      "socket:[999999]",
                                                      "anon_inode:[eventpoll]",
                                                      # not sockets, though characters 8.. spell
                                                      # the inode number of a generated socket
                                                      "/sim/xx/5001]", "/sim/xx/5002]"])),
                           max_size=4),
        odd_unix_lines=st.lists(st.sampled_from([b"0000000000000000:", b"garbage",
                                                 b"x"]), max_size=2),
        kind=st.sampled_from(KINDS),
        bad_kind=st.sampled_from(["", "tcp5", "TCP", "inet ", "???", "unix4", "all6"]),
        proc_pick=st.integers(0, 4),
        # ::1 cannot be bound on this host (IPv6 administratively disabled);
        # the kernel's IPv6 socket tables are what they are all the same
        no_ipv6_bind=st.sampled_from([False, False, True]),
        other_first=st.booleans(),
        # kernel built / booted without IPv6: /proc/net/tcp6 and udp6 do not exist
        no_v6_tables=st.sampled_from([False, False, False, True]),
        # a non-socket descriptor closes just before OS access number k of the
        # second system-wide call (between the listing of the fd directory and
        # the readlink of that entry, among others)
        closes=st.lists(st.tuples(st.integers(0, 7), st.integers(0, 400)), max_size=2),
    ))


PIDS = [100, 200, 300, 4000, 50000]


def hex4(b, p):
    # include/net: "%08X:%04X" of the __be32 read as a host-order u32
    return "%08X:%04X" % (struct.unpack("<I", b)[0], p) if struct.pack("=I", 1)[0] == 1 \
        else "%08X:%04X" % (struct.unpack(">I", b)[0], p)


def hex6(b, p):
    words = struct.unpack("<4I" if struct.pack("=I", 1)[0] == 1 else ">4I", b)
    return "%08X%08X%08X%08X:%04X" % (words + (p,))


def render_inet(socks, fam, proto):
    if proto == "tcp":
        out = ["  sl  local_address rem_address   st tx_queue rx_queue tr tm->when retrnsmt   uid  timeout inode"]
    else:
        out = ["   sl  local_address rem_address   st tx_queue rx_queue tr tm->when retrnsmt   uid  timeout inode ref pointer drops"]
    if fam == 6:
        out[0] = out[0].replace("local_address", "local_address                        ").replace(
            "rem_address", "remote_address                       ")
    i = 0
    for s in socks:
        if s["fam"] != fam or s["proto"] != proto:
            continue
        hx = hex4 if fam == 4 else hex6
        la = hx(s["l4"] if fam == 4 else s["l6"], s["lport"])
        ra = hx(s["r4"] if fam == 4 else s["r6"], s["rport"])
        stt = s["state"] if proto == "tcp" else 7
        if proto == "tcp":
            out.append("%4d: %s %s %02X %08X:%08X %02X:%08X %08X %5u %8d %d 1 0000000000000000 100 0 0 10 0"
                       % (i, la, ra, stt, 0, 0, 0, 0, 0, 1000, 0, s["inode"]))
        else:
            out.append("%5d: %s %s %02X %08X:%08X %02X:%08X %08X %5u %8d %d 2 0000000000000000 0"
                       % (i, la, ra, stt, 0, 0, 0, 0, 0, 1000, 0, s["inode"]))
        i += 1
    return ("\n".join(out) + "\n").encode()


def render_unix(socks, odd):
    out = ["Num       RefCount Protocol Flags    Type St Inode Path"]
    for s in socks:
        # net/unix/af_unix.c: "%pK: %08X %08X %08X %04X %02X %5lu" then " path"
        ln = "%016x: %08X %08X %08X %04X %02X %5d" % (0, 2, 0, 0x10000 if s["state"] == 1 else 0,
                                                       s["type"], s["state"], s["inode"])
        p = UNIX_PATHS[s["path"]]
        if p is not None:
            ln += " " + p
        out.append(ln)
    blob = ("\n".join(out) + "\n").encode("utf-8", "surrogateescape")
    for o in odd:
        blob += o + b"\n"
    return blob


def ip_text(fam, b):
    return socket.inet_ntop(socket.AF_INET if fam == 4 else socket.AF_INET6, b)


def build(case):
    k = simk.Kernel()
    k.ipv6_bindable = not case.get("no_ipv6_bind", False)
    inode = 5000
    inet = []
    seen = set()
    for s in case["inet"]:
        if case.get("no_v6_tables") and s["fam"] == 6:
            continue
        key = (s["proto"], s["fam"], s["l4"] if s["fam"] == 4 else s["l6"], s["lport"],
               s["r4"] if s["fam"] == 4 else s["r6"], s["rport"])
        if key in seen:
            continue  # rows are compared as sets: keep socket tuples unique
        seen.add(key)
        if s.get("orphan"):
            inet.append(dict(s, inode=0, holders=[]))
            continue
        inode += 1
        inet.append(dict(s, inode=inode))
    unix = []
    for s in case["unix"]:
        if s.get("orphan"):
            unix.append(dict(s, inode=0, holders=[]))
            continue
        inode += 1
        unix.append(dict(s, inode=inode))
    k.set_file("/proc/net/tcp", render_inet(inet, 4, "tcp"))
    k.set_file("/proc/net/udp", render_inet(inet, 4, "udp"))
    if not case.get("no_v6_tables"):
        k.set_file("/proc/net/tcp6", render_inet(inet, 6, "tcp"))
        k.set_file("/proc/net/udp6", render_inet(inet, 6, "udp"))
    k.set_file("/proc/net/unix", render_unix(unix, case["odd_unix_lines"]))
    tables = {pid: {} for pid in PIDS}
    others = []
    if case.get("other_first", False):
        # non-socket descriptors listed before the sockets
        for pi, tgt in case["other_fds"]:
            t = tables[PIDS[pi]]
            fd = 600 + len(t)
            t[fd] = simk.FD(tgt)
            others.append((PIDS[pi], fd))
    for s in inet + unix:
        real = []
        for pi, fd in s["holders"]:
            t = tables[PIDS[pi]]
            if fd in t:
                continue
            t[fd] = simk.FD("socket:[%d]" % s["inode"])
            real.append((PIDS[pi], fd))
        s["real_holders"] = real
    if not case.get("other_first", False):
        for pi, tgt in case["other_fds"]:
            t = tables[PIDS[pi]]
            fd = 900 + len(t)
            t[fd] = simk.FD(tgt)
            others.append((PIDS[pi], fd))
    k.psv_other_fds = others
    unreadable = {PIDS[i] for i in case["unreadable"]}
    for pid in PIDS:
        k.spawn(pid, fds=tables[pid], starttime=100 + pid,
                unreadable={"fd"} if pid in unreadable else set())
    return k, inet, unix, unreadable


def expected_rows(inet, unix, unreadable, kind, only_pid=None):
    """Return (fixed rows set, list of alternatives sets) - for inet sockets
    with several holders any one holder is acceptable."""
    import psutil

    fixed = set()
    alts = []
    want = KIND_TABLE[kind]
    for s in inet:
        if (s["fam"], s["proto"]) not in want:
            continue
        fam = socket.AF_INET if s["fam"] == 4 else socket.AF_INET6
        typ = socket.SOCK_STREAM if s["proto"] == "tcp" else socket.SOCK_DGRAM
        lb = s["l4"] if s["fam"] == 4 else s["l6"]
        rb = s["r4"] if s["fam"] == 4 else s["r6"]
        laddr = (ip_text(s["fam"], lb), s["lport"]) if s["lport"] else ()
        raddr = (ip_text(s["fam"], rb), s["rport"]) if s["rport"] else ()
        status = ("CONN_" + TCP_STATES[s["state"]]) if s["proto"] == "tcp" else "CONN_NONE"
        status = getattr(psutil, status)
        vis = [(p, fd) for p, fd in s["real_holders"] if p not in unreadable]
        if only_pid is not None:
            vis = [(p, fd) for p, fd in vis if p == only_pid]
            if not vis:
                continue
            alts.append({(fd, fam, typ, laddr, raddr, status) for p, fd in vis})
        elif not vis:
            fixed.add((-1, fam, typ, laddr, raddr, status, None))
        else:
            alts.append({(fd, fam, typ, laddr, raddr, status, p) for p, fd in vis})
    if ("unix", None) in want:
        for s in unix:
            typ = socket.SocketKind(s["type"])
            path = UNIX_PATHS[s["path"]] or ""
            vis = [(p, fd) for p, fd in s["real_holders"] if p not in unreadable]
            if only_pid is not None:
                for p, fd in vis:
                    if p == only_pid:
                        fixed.add((fd, socket.AF_UNIX, typ, path, "", psutil.CONN_NONE))
            elif not vis:
                fixed.add((-1, socket.AF_UNIX, typ, path, "", psutil.CONN_NONE, None))
            else:
                for p, fd in vis:
                    fixed.add((fd, socket.AF_UNIX, typ, path, "", psutil.CONN_NONE, p))
    return fixed, alts


def compare(got_list, fixed, alts, what):
    got = [tuple(tuple(x) if isinstance(x, tuple) else x for x in r) for r in got_list]
    gset = set(got)
    if len(gset) != len(got):
        raise Violation("duplicate-row", f"{what}: {got}")
    rest = set(gset)
    for row in fixed:
        if row not in rest:
            raise Violation("missing-row", f"{what}: expected row {row} not in {sorted(map(repr, gset))}")
        rest.discard(row)
    for alt in alts:
        hit = alt & rest
        if len(hit) != 1:
            raise Violation("socket-once",
                            f"{what}: socket with acceptable rows {sorted(map(repr, alt))} "
                            f"appears {len(hit)} times in {sorted(map(repr, gset))}")
        rest -= hit
    if rest:
        raise Violation("extra-row", f"{what}: unexpected rows {sorted(map(repr, rest))}")


def run_case(case):
    import psutil

    k, inet, unix, unreadable = build(case)
    kind = case["kind"]
    pid = PIDS[case["proc_pick"]]
    labels = set()
    with simk.installed(k):
        try:
            sysw = psutil.net_connections(kind)
        except Exception as e:  # noqa: BLE001
            import traceback
            raise Violation("system-wide-exception", f"kind={kind}: {e!r} " + traceback.format_exc()[-400:]) from None
        for r in sysw:
            if r._fields != ("fd", "family", "type", "laddr", "raddr", "status", "pid"):
                raise Violation("sconn-fields", repr(r._fields))
        proc = psutil.Process(pid)
        if pid in unreadable:
            try:
                proc.net_connections(kind)
                raise Violation("per-process-denied", "unreadable fd dir did not raise AccessDenied")
            except psutil.AccessDenied:
                labels.add("per-process-denied")
            perp = None
        else:
            try:
                perp = proc.net_connections(kind)
            except Exception as e:  # noqa: BLE001
                import traceback
                raise Violation("per-process-exception", f"kind={kind}: {e!r} " + traceback.format_exc()[-400:]) from None
        for bad in (case["bad_kind"], None, 5, ("tcp",)):
            for fn in (psutil.net_connections, proc.net_connections):
                try:
                    fn(bad)
                except ValueError:
                    continue
                except Exception as e:  # noqa: BLE001
                    raise Violation("bad-kind", f"kind={bad!r} raised {e!r}, expected ValueError") from None
                raise Violation("bad-kind", f"kind={bad!r} accepted")
        # ---- a descriptor that is not a socket closes during the scan
        sysw2 = None
        if k.psv_other_fds and case.get("closes"):
            n0 = len(k.log)
            psutil.net_connections(kind)
            n_acc = len(k.log) - n0
            saved = {p_: dict(k.procs[p_].fds) for p_ in PIDS}
            faults = []
            for idx, kk in case["closes"]:
                vp, vfd = k.psv_other_fds[idx % len(k.psv_other_fds)]
                faults.append(simk.Fault(kk % max(n_acc, 1), "closefd", vp, vfd))
            k.arm(faults)
            try:
                sysw2 = psutil.net_connections(kind)
            except Exception as e:  # noqa: BLE001
                import traceback
                raise Violation("system-wide-exception",
                                f"kind={kind}, non-socket fd closing at access(es) {[f.k for f in faults]}: {e!r} "
                                + traceback.format_exc()[-400:]) from None
            finally:
                k.arm([])
                for p_, fds_ in saved.items():
                    k.procs[p_].fds = fds_
            labels.add("non-socket-fd-closing-mid-scan")
    fixed, alts = expected_rows(inet, unix, unreadable, kind)
    compare(sysw, fixed, alts, f"net_connections({kind!r})")
    if sysw2 is not None:
        compare(sysw2, fixed, alts, f"net_connections({kind!r}) while a non-socket descriptor closes")
    if perp is not None:
        for r in perp:
            if r._fields != ("fd", "family", "type", "laddr", "raddr", "status"):
                raise Violation("pconn-fields", repr(r._fields))
        fixed, alts = expected_rows(inet, unix, unreadable, kind, only_pid=pid)
        compare(perp, fixed, alts, f"Process({pid}).net_connections({kind!r})")

    for s in inet:
        if s["fam"] == 6:
            labels.add("ipv6")
            b = s["l6"]
            if b[:12] == bytes(10) + b"\xff\xff":
                labels.add("v4-mapped")
        if s["lport"] == 0 or s["rport"] == 0:
            labels.add("port0")
    for tbl in {(s["fam"], s["proto"]) for s in inet}:
        if sum(1 for s in inet if (s["fam"], s["proto"]) == tbl and s["inode"] == 0) >= 2:
            labels.add("several-inode0-rows-in-one-table")
    for s in inet + unix:
        vis = [h for h in s["real_holders"] if h[0] not in unreadable]
        if len({p for p, _ in vis}) >= 2:
            labels.add("shared-holder")
        if not vis:
            labels.add("ownerless")
        if len(vis) != len(s["real_holders"]):
            labels.add("holder-in-unreadable-proc")
    for s in unix:
        p = UNIX_PATHS[s["path"]]
        if p and " " in p:
            labels.add("unix-path-space")
        if p and p.startswith("@"):
            labels.add("unix-abstract")
    if case["odd_unix_lines"]:
        labels.add("odd-unix-line")
    if case.get("no_v6_tables"):
        labels.add("no-ipv6-tables")
    if case.get("no_ipv6_bind") and any(s_["fam"] == 6 for s_ in inet):
        labels.add("ipv6-rows-on-host-without-bindable-::1")
    labels.add("kind=" + kind)
    feat = labels - {"kind=" + kind}
    nontrivial = (",".join(sorted(feat)) + "|" + kind) if feat & {
        "ipv6", "v4-mapped", "shared-holder", "ownerless", "unix-path-space",
        "unix-abstract", "several-inode0-rows-in-one-table"} else None
    return Result(sorted(labels), nontrivial)


def calibrate():
    """Live loopback sockets: the model's address / path rendering must equal
    what the kernel prints for them."""
    out = {}
    d = tempfile.mkdtemp(prefix="psv-c11-", dir=os.environ.get("VERIF_SCRATCH"))
    socks = []
    try:
        s4 = socket.socket(socket.AF_INET, socket.SOCK_STREAM)
        s4.bind(("127.0.0.1", 0))
        s4.listen(1)
        socks.append(s4)
        u4 = socket.socket(socket.AF_INET, socket.SOCK_DGRAM)
        u4.bind(("127.0.0.1", 0))
        socks.append(u4)
        checks = [("/proc/net/tcp", s4, hex4(bytes([127, 0, 0, 1]), s4.getsockname()[1]), "0A"),
                  ("/proc/net/udp", u4, hex4(bytes([127, 0, 0, 1]), u4.getsockname()[1]), "07")]
        try:
            s6 = socket.socket(socket.AF_INET6, socket.SOCK_STREAM)
            s6.bind(("::1", 0))
            s6.listen(1)
            socks.append(s6)
            checks.append(("/proc/net/tcp6", s6, hex6(bytes(15) + b"\x01", s6.getsockname()[1]), "0A"))
        except OSError:
            out["ipv6"] = "unavailable"
        for path, s, want, st_ in checks:
            ino = os.fstat(s.fileno()).st_ino
            with open(path) as f:
                lines = f.read().splitlines()[1:]
            mine = [ln.split() for ln in lines if ln.split()[9] == str(ino)]
            if len(mine) != 1 or mine[0][1] != want or mine[0][3] != st_:
                raise HarnessError(f"{path}: live {mine} model local={want} st={st_}")
        upath = os.path.join(d, "my  sock x")
        us = socket.socket(socket.AF_UNIX, socket.SOCK_STREAM)
        us.bind(upath)
        socks.append(us)
        ua = socket.socket(socket.AF_UNIX, socket.SOCK_DGRAM)
        ua.bind(b"\0psv abstract")
        socks.append(ua)
        un = socket.socket(socket.AF_UNIX, socket.SOCK_SEQPACKET)
        socks.append(un)
        with open("/proc/net/unix") as f:
            lines = f.read().split("\n")[1:]
        for s, want_path, typ in ((us, upath, 1), (ua, "@psv abstract", 2), (un, None, 5)):
            ino = os.fstat(s.fileno()).st_ino
            mine = [ln for ln in lines if ln and ln.split()[6] == str(ino)]
            model = render_unix([dict(type=typ, state=1, inode=ino, path=0)], []).decode().split("\n")[1]
            if want_path is not None:
                model += " " + want_path
            if len(mine) != 1:
                raise HarnessError(f"unix inode {ino} not found once")
            lf, mf = mine[0].split(None, 7), model.split(None, 7)
            if lf[4] != mf[4] or lf[6] != mf[6] or lf[7:] != mf[7:] or len(lf[0]) != len(mf[0]):
                raise HarnessError(f"/proc/net/unix line: live {mine[0]!r} model {model!r}")
        out["live_sockets_checked"] = len(checks) + 3
    finally:
        for s in socks:
            s.close()
        for n in os.listdir(d):
            os.unlink(os.path.join(d, n))
        os.rmdir(d)
    return out


def live_tier(tier, seed, stats):
    """Real sockets opened by the harness: each must appear exactly once in
    net_connections('all') and Process().net_connections('all') with the
    address the socket API reports, the right state, our PID and the fd."""
    import psutil

    d = tempfile.mkdtemp(prefix="psv-c11-", dir=os.environ.get("VERIF_SCRATCH"))
    socks = []
    try:
        def mk(fam, typ, bind=None, listen=False):
            s_ = socket.socket(fam, typ)
            if bind is not None:
                s_.bind(bind)
            if listen:
                s_.listen(1)
            socks.append(s_)
            return s_

        t4 = mk(socket.AF_INET, socket.SOCK_STREAM, ("127.0.0.1", 0), True)
        u4 = mk(socket.AF_INET, socket.SOCK_DGRAM, ("127.0.0.1", 0))
        c4 = mk(socket.AF_INET, socket.SOCK_STREAM)
        c4.connect(t4.getsockname())
        acc, _ = t4.accept()
        socks.append(acc)
        # (an unbound, unconnected TCP socket is not in the kernel's table)
        items = [(t4, "LISTEN"), (u4, "NONE"), (c4, "ESTABLISHED"), (acc, "ESTABLISHED")]
        try:
            t6 = mk(socket.AF_INET6, socket.SOCK_STREAM, ("::1", 0), True)
            u6 = mk(socket.AF_INET6, socket.SOCK_DGRAM, ("::", 0))
            items += [(t6, "LISTEN"), (u6, "NONE")]
        except OSError:
            pass
        ux = mk(socket.AF_UNIX, socket.SOCK_STREAM, os.path.join(d, "with  two spaces"), True)
        ua = mk(socket.AF_UNIX, socket.SOCK_DGRAM, b"\0psv live abstract")
        un = mk(socket.AF_UNIX, socket.SOCK_SEQPACKET)
        items += [(ux, "NONE"), (ua, "NONE"), (un, "NONE")]
        me = os.getpid()
        try:
            sysw = psutil.net_connections("all")
            mine = psutil.Process().net_connections("all")
        except Exception as e:  # noqa: BLE001
            stats.fail({"live": "net_connections"}, Violation("live-exception", repr(e)))
            return
        n = 0
        for s_, state in items:
            fd = s_.fileno()
            case = {"live_socket": [int(s_.family), int(s_.type), state]}
            if s_.family == socket.AF_UNIX:
                nm = s_.getsockname()
                laddr = nm if isinstance(nm, str) else ("@" + nm[1:].decode() if nm else "")
                raddr = ""
            else:
                la = s_.getsockname()
                laddr = (la[0], la[1]) if la[1] else ()
                try:
                    ra = s_.getpeername()
                    raddr = (ra[0], ra[1])
                except OSError:
                    raddr = ()
            want = (fd, s_.family, s_.type, laddr, raddr, state)
            rows_p = [r for r in mine if r.fd == fd]
            rows_s = [r for r in sysw if r.pid == me and r.fd == fd]
            ok = (len(rows_p) == 1 and len(rows_s) == 1
                  and tuple(rows_p[0]) == want and tuple(rows_s[0])[:6] == want)
            if not ok:
                stats.fail(case, Violation("live-socket", f"socket {want}: per-process rows {rows_p}, "
                                           f"system-wide rows {rows_s}"))
                continue
            n += 1
            stats.record(case, Result(["live-socket"], "live|%d|%d|%s" % (s_.family, s_.type, state)),
                         keep_sample=(n == 1))
        stats.notes["live_sockets_checked"] = n
    finally:
        for s_ in socks:
            s_.close()
        for nm in os.listdir(d):
            os.unlink(os.path.join(d, nm))
        os.rmdir(d)


PROP = Property(
    prelude=True,
    id="C11",
    level="exploration",
    rule=("Hypothesis generates socket tables: TCP/UDP over IPv4/IPv6 with "
          "dictionary + arbitrary addresses (mapped, link-local, zero), ports "
          "incl. 0, all 11 TCP states, UNIX stream/dgram/seqpacket sockets "
          "with no path / fs path / path with spaces / abstract names, odd "
          "short lines, 0-4 holders per socket across 5 processes (shared, "
          "duplicate descriptors, holders in unreadable processes, non-socket "
          "and foreign-socket descriptors); one of the 11 kinds per case, "
          "system-wide and per-process, plus invalid kinds.  Rows are "
          "compared as sets with the model.  Non-trivial = a table with IPv6 "
          "/ mapped address, shared holder, ownerless socket, UNIX path with "
          "a space or abstract name; distinct = feature set x kind."),
    strategy=strategy,
    run_case=run_case,
    budgets={"quick": 12000, "thorough": 100000},
    calibrate=calibrate,
    extra_tiers=[("live", live_tier)],
    assumptions=[
        "socket tuples (proto, family, laddr, raddr) are unique within a table "
        "(psutil returns a set of rows)",
        "for an inet socket with several visible holders any one of them is accepted",
        "UNIX socket paths do not contain newlines",
    ],
    trusted_base=["vlib/simk.py", "props/c11 /proc/net renderers (calibrated "
                  "against live loopback sockets each run)", "hypothesis"],
)

if __name__ == "__main__":
    main(PROP, "props.c11_netconn")
