"""C01 - signals and setters never reach a recycled PID or a process group.

Domain: op-list histories over the simulated process table (spawn, exit, reap,
PID recycling by a live process or a zombie any number of times, object
creation incl. the Popen path, interleaved queries) with actions on any
existing object: send_signal(1..64 + invalid), suspend/resume/terminate/kill,
nice, ionice grid, rlimit, cpu_affinity.  Oracle: ghost identity (incarnation
ids) + the simulated kernel's delivery log.  Live tier: real children killed
through psutil, waitpid status must show exactly that signal, sibling survives.
"""

import os
import resource
import signal
import subprocess
import sys

from hypothesis import strategies as st

from vlib import calib
from vlib import history
from vlib import simk
from vlib.runner import Property
from vlib.runner import Result
from vlib.runner import Violation
from vlib.runner import main


def action_ops():
    i = st.integers(0, 11)
    sig = st.one_of(st.integers(1, 64), st.sampled_from([9, 15, 19, 18, 1, 2]),
                    st.sampled_from([0, -1, 65, 128, 2**31]))
    return [
        st.tuples(st.just("send_signal"), i, sig),
        st.tuples(st.just("helper"), i, st.sampled_from(["suspend", "resume", "terminate", "kill"])),
        st.tuples(st.just("nice"), i, st.integers(-25, 25)),
        st.tuples(st.just("ionice"), i, st.sampled_from([0, 1, 2, 3, None]),
                  st.sampled_from([None, 0, 1, 4, 7, 8, -1])),
        st.tuples(st.just("rlimit"), i,
                  st.sampled_from(["NOFILE", "AS", "CORE", "NPROC"]),
                  st.sampled_from([(0, 0), (1, 2), (1024, 4096), (-1, -1), (5,), (1, 2, 3), ()])),
        st.tuples(st.just("cpu_affinity"), i,
                  st.sampled_from([[0], [1, 2], [0, 1, 2, 3], [], [0, 0, 1], [3, 3],
                                   [99], [-1], [4], [2]])),
    ]


def strategy(tier):
    nops = 24 if tier == "quick" else 40
    # an action attempted while one of its OS accesses fails for a reason
    # unrelated to the process (fd exhaustion, no memory, I/O error)
    faulted = [st.tuples(st.just("faulted"), a, st.sampled_from(["EMFILE", "ENFILE", "ENOMEM", "EIO"]),
                         st.integers(0, 3)) for a in action_ops()]
    ops = (history.table_ops() + history.query_ops() + history.extra_ops()
           + action_ops() + action_ops() + [st.one_of(faulted)])
    return st.fixed_dictionaries(dict(
        pid0=st.sampled_from([False, False, False, True]),
        # which pool PIDs are alive at the start (bit i) and have an object
        setup=st.integers(0, 63),
        tick0=st.sampled_from([False, False, True]),   # first pool process starts at tick 0
        odd_comm=st.booleans(),   # process names with parentheses / blanks
        ops=history.with_motifs(ops, 6, nops),
    ))


RES = {"NOFILE": resource.RLIMIT_NOFILE, "AS": resource.RLIMIT_AS,
       "CORE": resource.RLIMIT_CORE, "NPROC": resource.RLIMIT_NPROC}
HELPER_SIG = {"suspend": signal.SIGSTOP, "resume": signal.SIGCONT,
              "terminate": signal.SIGTERM, "kill": signal.SIGKILL}


def run_case(case):
    import psutil

    w = history.World(with_pid0=case["pid0"], first_tick=-1 if case.get("tick0") else 100,
                      odd_comm=case.get("odd_comm", False))
    k = w.k
    labels = set()
    nontrivial = set()
    queries_since_recycle = {}

    def deliveries():
        return len(k.kills), len(k.setcalls)

    with simk.installed(k):
        # negative PIDs are rejected at construction, pid_exists(-n) is False
        # without a syscall
        n0 = len(k.log)
        for bad in (-1, -10, -2**31):
            try:
                psutil.Process(bad)
                raise Violation("negative-pid", f"Process({bad}) accepted")
            except ValueError:
                pass
            except Violation:
                raise
            except Exception as e:  # noqa: BLE001
                raise Violation("negative-pid", f"Process({bad}) raised {e!r}") from None
            if psutil.pid_exists(bad) is not False:
                raise Violation("negative-pid", f"pid_exists({bad}) is not False")
        if any(e is not None and e["op"] == "kill" for e in k.log[n0:]):
            raise Violation("negative-pid", "a syscall was made for a negative PID")
        if case["pid0"]:
            p0 = psutil.Process(0)
            before = len(k.kill_attempts)
            for name in ("suspend", "resume", "terminate", "kill"):
                try:
                    getattr(p0, name)()
                    raise Violation("pid0", f"{name}() on PID 0 did not raise")
                except ValueError:
                    pass
            try:
                p0.send_signal(signal.SIGTERM)
                raise Violation("pid0", "send_signal on PID 0 did not raise")
            except ValueError:
                pass
            if [a for a in k.kill_attempts[before:] if a[1] != 0]:
                raise Violation("pid0", f"signal issued for PID 0: {k.kill_attempts[before:]}")
            labels.add("pid0-refused")

        for i, pid in enumerate(history.PID_POOL):
            if case.get("setup", 0) >> i & 1:
                w.spawn(pid, child=bool(i & 1))
                # every third object is a psutil.Popen instance
                w.mkproc(pid, via_popen="popen-class" if i % 3 == 2 else False)
        for op in case["ops"]:
            kind = op[0]
            if kind == "spawn":
                w.spawn(w.pick_pid(op[1]), child=op[2], zombie=op[3])
            elif kind == "exit":
                w.exit(w.pick_pid(op[1]))
            elif kind == "reap":
                w.reap(w.pick_pid(op[1]))
            elif kind == "become":
                w.become(w.pick_pid(op[1]))
            elif kind == "recycle":
                pid = w.pick_pid(op[1])
                if w.recycle(pid, zombie=op[2]) is not None:
                    queries_since_recycle[pid] = False
            elif kind == "mkproc":
                try:
                    w.mkproc(w.pick_pid(op[1]), via_popen=op[2])
                except psutil.NoSuchProcess as e:
                    raise Violation("constructor", f"Process() raised {e!r} for a listed PID") from None
            elif kind == "is_running":
                for o in (list(w.objs) if op[1] >= 10 else [w.pick_obj(op[1])]):
                    if o is None:
                        continue
                    r = o.proc.is_running()
                    if r != w.alive(o):
                        raise Violation("is_running", f"pid {o.pid}: {r} but incarnation alive={w.alive(o)}")
                    queries_since_recycle[o.pid] = True
            elif kind == "process_iter":
                it = psutil.process_iter()
                for _ in range(op[1]):
                    if next(it, None) is None:
                        break
                it.close()
                for pid in queries_since_recycle:
                    queries_since_recycle[pid] = True
            elif kind == "query":
                o = w.pick_obj(op[1])
                if o is not None:
                    try:
                        if op[2] == "str":
                            str(o.proc)
                        else:
                            getattr(o.proc, op[2])()
                    except psutil.Error:
                        pass
            elif kind == "pids":
                psutil.pids()
            elif w.apply_extra(op):
                pass
            elif kind == "faulted":
                o = w.pick_obj(op[1][1])
                if o is None:
                    continue
                do_action(w, o, tuple(op[1]), labels, nontrivial, queries_since_recycle, fault=(op[2], op[3]))
            else:
                o = w.pick_obj(op[1])
                if o is None:
                    continue
                do_action(w, o, op, labels, nontrivial, queries_since_recycle)
            # whole-history invariant
            if k.group_signals:
                raise Violation("process-group-signal",
                                f"kill() called with pid <= 0: {k.group_signals} after op {op}")
        w.close_blocks()
    if w.recycled_pids:
        labels.add("history-with-recycle")
    for e in w.events:
        if e[0] in ("oneshot-enter", "wait-returned", "kept-from-process_iter", "became"):
            labels.add("history-with-" + e[0])
    return Result(sorted(labels) or ["no-action"], nontrivial or None)


def do_action(w, o, op, labels, nontrivial, queries_since_recycle, fault=None):
    import psutil

    k = w.k
    kind = op[0]
    P = o.pid
    owner = w.owner_inc(P)
    mine = o.inc is not None and owner == o.inc
    recycled = owner is not None and not mine
    valid = True
    expect = None  # expected delivery record (without incarnation)
    if kind == "send_signal":
        sig = op[2]
        fn = lambda: o.proc.send_signal(sig)  # noqa: E731
        valid = 1 <= sig <= 64
        expect = ("kill", P, sig)
        if sig == 0:
            valid, expect = True, None
    elif kind == "helper":
        fn = getattr(o.proc, op[2])
        expect = ("kill", P, int(HELPER_SIG[op[2]]))
    elif kind == "nice":
        fn = lambda: o.proc.nice(op[2])  # noqa: E731
        expect = ("setpriority", P, op[2])
    elif kind == "ionice":
        cls, lvl = op[2], op[3]
        if cls is None and lvl is None:
            return  # that is the getter
        fn = lambda: o.proc.ionice(cls, lvl)  # noqa: E731
        valid = (cls is not None and (lvl is None or 0 <= lvl <= 7)
                 and not (lvl and cls in (0, 3)))
        expect = ("ioprio_set", P, cls, lvl or 0)
    elif kind == "rlimit":
        lim = tuple(op[3])
        fn = lambda: o.proc.rlimit(RES[op[2]], lim)  # noqa: E731
        valid = len(lim) == 2
        expect = ("prlimit", P, RES[op[2]], lim)
    elif kind == "cpu_affinity":
        cpus = list(op[2])
        fn = lambda: o.proc.cpu_affinity(cpus)  # noqa: E731
        valid = all(0 <= c < k.ncpus for c in cpus)
        eff = set(cpus) if cpus else set(range(k.ncpus))
        expect = ("sched_setaffinity", P, eff)
    else:
        raise AssertionError(kind)

    nk, ns = len(k.kills), len(k.setcalls)
    ferrno = None
    if fault is not None:
        import errno as _errno
        ferrno = getattr(_errno, fault[0])
        k.arm([simk.Fault(fault[1], "deny", P, ferrno)])
    try:
        fn()
        exc = None
    except BaseException as e:  # noqa: BLE001
        exc = e
    finally:
        if fault is not None:
            k.arm([])
    new_kills = k.kills[nk:]
    new_sets = k.setcalls[ns:]
    delivered = [("kill", p_, s_, inc) for p_, s_, inc in new_kills] + [
        (c[0], c[1]) + tuple(c[2:-1]) + (c[-1],) for c in new_sets]
    desc = f"{kind}{tuple(op[2:])} on object for pid {P} (built for incarnation {o.inc}, owner now {owner})"

    # every delivery goes to exactly the PID of the object
    for d in delivered:
        if d[1] != P:
            raise Violation("wrong-target", f"{desc}: delivered {d}")
    if fault is not None:
        desc += f" while access {fault[1]} pertaining to the pid fails with {fault[0]}"
        labels.add("action-under-transient-error")
    if not mine:
        # own process gone: NoSuchProcess, and nothing reaches a new owner
        if delivered:
            raise Violation("delivered-to-new-owner", f"{desc}: delivered {delivered}")
        if (ferrno is not None and isinstance(exc, OSError) and not isinstance(exc, psutil.Error)
                and exc.errno == ferrno):
            labels.add("transient-error-came-through")
            return  # the environment's failure comes through; nothing was delivered
        if not isinstance(exc, psutil.NoSuchProcess):
            if not valid and isinstance(exc, (ValueError, OSError, OverflowError, TypeError)):
                pass  # invalid request rejected before / instead of the identity check
            elif kind == "send_signal" and op[2] == 0 and exc is None and owner is not None:
                raise Violation("recycled-not-detected", f"{desc}: returned normally")
            else:
                raise Violation("gone-not-NoSuchProcess", f"{desc}: {exc!r}")
        if recycled:
            ev = [e for e in w.events if e[0] == "recycle" and e[1] == P]
            how = ev[-1][2] if ev else ("zombie" if k.procs[P].zombie else "live")
            nontrivial.add("%s|%s|queried-between=%s|recycles=%d|%s" % (
                kind if kind != "helper" else op[2], how,
                queries_since_recycle.get(P, False), min(len(ev), 3),
                "born-gone" if o.born_gone else "normal"))
            labels.add("action-on-recycled-pid")
        else:
            labels.add("action-on-gone-pid")
        return
    # own incarnation still in the table (zombie included)
    if (ferrno is not None and isinstance(exc, OSError) and not isinstance(exc, psutil.Error)
            and exc.errno == ferrno and not delivered):
        labels.add("transient-error-came-through")
        return
    if not valid:
        if exc is None or isinstance(exc, psutil.Error):
            raise Violation("invalid-accepted", f"{desc}: {exc!r}")
        if delivered:
            raise Violation("invalid-delivered", f"{desc}: {delivered}")
        labels.add("invalid-request")
        return
    if exc is not None:
        raise Violation("valid-request-failed", f"{desc}: {exc!r}")
    if expect is None:
        if delivered:
            raise Violation("probe-delivered", f"{desc}: {delivered}")
        return
    if len(delivered) != 1:
        raise Violation("exactly-one-delivery", f"{desc}: {delivered}")
    d = delivered[0]
    got = d[:-1]
    if expect[0] == "sched_setaffinity":
        # what [] selects ("all eligible CPUs") is decided by C18; here only
        # the target and, for explicit lists, the exact set
        ok = got[0] == "sched_setaffinity" and len(set(got[2])) == len(got[2]) and (
            set(got[2]) == expect[2] or not list(op[2]))
    elif expect[0] == "prlimit":
        ok = got[0] == "prlimit" and got[2] == expect[2] and tuple(got[3]) == tuple(expect[3])
    else:
        ok = tuple(got) == tuple(expect)
    if not ok or d[-1] != o.inc:
        raise Violation("exact-value", f"{desc}: delivered {d}, expected {expect}")
    labels.add("delivered-" + kind)


def live_tier(tier, seed, stats):
    """Real children: the signal sent through psutil is the one that kills."""
    import psutil

    sigs = [signal.SIGTERM, signal.SIGKILL, signal.SIGINT, signal.SIGHUP,
            signal.SIGQUIT, signal.SIGUSR1, signal.SIGUSR2, signal.SIGALRM,
            signal.SIGPIPE, signal.SIGABRT, signal.SIGSEGV, signal.SIGBUS,
            signal.SIGFPE, signal.SIGILL, signal.SIGXCPU, signal.SIGVTALRM]
    n = 0
    for sig in sigs:
        # (plain sleep binaries with default dispositions: neither Python's own
        # handlers nor ignored signals inherited from the caller interfere)
        a = subprocess.Popen(["sleep", "60"], preexec_fn=calib.default_signals)
        b = subprocess.Popen(["sleep", "60"], preexec_fn=calib.default_signals)
        case = {"live_signal": int(sig)}
        try:
            p = psutil.Process(a.pid)
            if sig == signal.SIGTERM:
                p.terminate()
            elif sig == signal.SIGKILL:
                p.kill()
            else:
                p.send_signal(sig)
            _, status = os.waitpid(a.pid, 0)
            a.returncode = -int(sig)
            if not os.WIFSIGNALED(status) or os.WTERMSIG(status) != sig:
                stats.fail(case, Violation("live-signal", f"sent {sig!r}, wait status {status}"))
                continue
            r, st_ = os.waitpid(b.pid, os.WNOHANG)
            if r != 0:
                stats.fail(case, Violation("live-sibling", f"sibling died with status {st_}"))
                b.returncode = -1
                continue
            # the object now refers to a dead process
            try:
                p.send_signal(sig)
                stats.fail(case, Violation("live-gone", "send_signal on a reaped child did not raise"))
                continue
            except psutil.NoSuchProcess:
                pass
            n += 1
            stats.record(case, Result(["live-signal"], "live|%d" % sig), keep_sample=(n == 1))
        finally:
            for c in (a, b):
                if c.returncode is None:
                    c.kill()
                    c.wait()
    stats.notes["live_signals_checked"] = n


PROP = Property(
    id="C01",
    level="exploration",
    rule=("Hypothesis generates op-list histories (<= 24 ops, thorough 40) "
          "over a simulated process table with 6 recyclable PIDs: spawn "
          "(child / non-child / zombie), exit, reap, recycle (new incarnation "
          "on the same PID at least one clock tick later, live or zombie, any "
          "number of times), Process() creation (also through the Popen "
          "_ignore_nsp path), interleaved is_running / process_iter (partial) / "
          "name / as_dict / pids queries, and actions on any existing object: "
          "send_signal with 1..64 and invalid numbers, suspend / resume / "
          "terminate / kill, nice -25..25, the ionice class x level grid incl. "
          "invalid, rlimit pairs and non-pairs, cpu_affinity lists incl. [], "
          "duplicates and out-of-range; 1 in 4 tables lists PID 0.  After "
          "every action the simulated kernel's delivery log is compared with "
          "the ghost identity of the object.  Live tier: 16 fatal signals "
          "sent to real children.  Non-trivial = an action on an object whose "
          "PID had been recycled; distinct = (action, reuse kind live/zombie, "
          "query between reuse and action, recycle count)."),
    strategy=strategy,
    run_case=run_case,
    budgets={"quick": 20000, "thorough": 200000},
    extra_tiers=[("live", live_tier)],
    assumptions=[
        "a PID reused within the same clock tick is documented as "
        "indistinguishable and is not generated; btime is constant here",
        "invalid requests on a gone/recycled process may be rejected with "
        "ValueError instead of NoSuchProcess, but never delivered",
    ],
    trusted_base=["vlib/simk.py syscall model and delivery log", "vlib/history.py", "hypothesis"],
)

if __name__ == "__main__":
    main(PROP, "props.c01_signals")
