"""C15 - wait() and wait_procs(): right exit status, never early, timeouts
honoured.

Virtual time: waitpid, kill(0), the monotonic timer and sleep are the simulated
kernel's.  The exit instant is placed on a grid around the polling instants
and the deadline.  Oracle: reads the log of virtual clock readings, sleeps and
polls.  Live tier: real children exiting with sampled codes / signals (values
only, no timing assertions).
"""

import math
import os
import signal
import subprocess
import sys

from hypothesis import strategies as st

from vlib import calib
from vlib import simk
from vlib.runner import Property
from vlib.runner import Result
from vlib.runner import Violation
from vlib.runner import main

EPS = 1e-9
POLL_MAX = 0.04


def poll_instants(n=40):
    t, iv, out = 0.0, 0.0001, []
    for _ in range(n):
        out.append(t)
        t += iv
        iv = min(iv * 2, POLL_MAX)
    return out


POLLS = poll_instants()


def status_st():
    return st.one_of(
        st.tuples(st.just("code"), st.one_of(st.integers(0, 255), st.sampled_from([0, 1, 2, 127, 255]))),
        st.tuples(st.just("sig"), st.integers(1, 64), st.booleans()),
        st.tuples(st.just("sig"), st.sampled_from([9, 15, 11, 6, 2]), st.booleans()),
    )


def place_st():
    return st.one_of(
        st.just(("before",)),
        st.tuples(st.just("between"), st.integers(0, 14)),
        st.tuples(st.just("on"), st.integers(1, 14)),
        st.just(("deadline",)),
        st.tuples(st.just("after_deadline"), st.sampled_from([1e-6, 0.0001, 0.01, 0.039, 0.041, 0.5])),
        st.tuples(st.just("before_deadline"), st.sampled_from([1e-6, 0.0001, 0.01, 0.039, 0.041])),
        st.just(("never",)),
    )


TIMEOUTS = [None, None, 0, 0.0, 0.00005, 0.001, 0.0127, 0.05, 0.1, 0.3, 1.0, 2, -1, -0.5,
            float("nan")]


def one_proc():
    return st.fixed_dictionaries(dict(
        kind=st.sampled_from(["child", "child", "nonchild", "never"]),
        place=place_st(),
        status=status_st(),
    ))


def strategy(tier):
    return st.fixed_dictionaries(dict(
        mode=st.sampled_from(["wait", "wait", "wait_procs"]),
        procs=st.lists(one_proc(), min_size=1, max_size=6),
        timeout=st.sampled_from(TIMEOUTS),
        eintr=st.sets(st.integers(0, 12), max_size=3),
        repeat=st.integers(0, 2),
        callback=st.booleans(),
        # wait_procs(): the same process given more than once (the same object
        # again / a second, equal Process object), as p.children() +
        # p.children(recursive=True) does
        dups=st.lists(st.tuples(st.integers(0, 7), st.booleans()), max_size=2),
        # every sleep may last longer than asked for (loaded machine): the
        # deadline is a clock time, not a count of polls
        oversleep=st.sampled_from([0, 0, 0, 0.5, 2.0, 3.0]),
        # non-children are invisible in /proc (hidepid=2): only kill(pid, 0)
        # can tell whether they are still there
        hidden=st.sampled_from([False, False, True]),
    ))


def status_word(s):
    if s[0] == "code":
        return (s[1] & 0xff) << 8
    return (s[1] & 0x7f) | (0x80 if s[2] else 0)


def expected_value(s):
    if s[0] == "code":
        return s[1] & 0xff
    sig = s[1] & 0x7f
    return -sig


def exit_time(place, t0, timeout):
    deadline = None
    if timeout is not None and isinstance(timeout, (int, float)) and timeout == timeout and timeout >= 0:
        deadline = t0 + timeout
    kind = place[0]
    if kind == "before":
        return t0 - 1.0
    if kind == "between":
        i = place[1]
        return t0 + (POLLS[i] + POLLS[i + 1]) / 2
    if kind == "on":
        return t0 + POLLS[place[1]]
    if kind == "never":
        return None
    if deadline is None:
        # no deadline: fall back to a point between two polls
        return t0 + (POLLS[5] + POLLS[6]) / 2
    if kind == "deadline":
        return deadline
    if kind == "after_deadline":
        return deadline + place[1]
    if kind == "before_deadline":
        return max(t0 - 1.0, deadline - place[1])
    raise AssertionError(place)


class Sched:
    """Exits processes when virtual time reaches their exit instant."""

    def __init__(self, k):
        self.k = k
        self.exits = {}  # pid -> (time, status word or None, child)
        self.done = {}
        k.on_time = self.tick
        k.on_block = self.block

    def add(self, pid, t, word):
        self.exits[pid] = (t, word)

    def tick(self, now):
        for pid, (t, word) in list(self.exits.items()):
            if t is not None and now >= t:
                self.fire(pid)

    def fire(self, pid):
        t, word = self.exits.pop(pid)
        p = self.k.procs.get(pid)
        self.done[pid] = t
        if p is None:
            return
        if p.child:
            self.k.zombify(pid)
            p.wait_status = word
        else:
            self.k.vanish(pid)

    def block(self, pid):
        if pid not in self.exits or self.exits[pid][0] is None:
            return
        t = self.exits[pid][0]
        if t > self.k.now:
            self.k.now = t
        self.tick(self.k.now)


def run_case(case):
    import psutil

    k = simk.Kernel()
    k.add_default_sysfiles()
    k.spawn(1, comm=b"init", ppid=0, starttime=1)
    k.spawn(k.self_pid, comm=b"harness", ppid=1, starttime=5)
    sched = Sched(k)
    timeout = case["timeout"]
    t0 = k.now
    labels = set()
    procs = case["procs"] if case["mode"] == "wait_procs" else case["procs"][:1]
    blocking_forever = False
    objs = []
    k.waitpid_eintr = set(case["eintr"])
    k.oversleep = case.get("oversleep", 0)
    slack = POLL_MAX * (1 + k.oversleep)  # the longest a single poll sleep can last
    if k.oversleep:
        labels.add("oversleeping")
    with simk.installed(k):
        specs = []
        for i, pr in enumerate(procs):
            pid = 100 + i
            kind = pr["kind"]
            et = exit_time(tuple(pr["place"]), t0, timeout)
            if kind != "never":
                k.spawn(pid, comm=b"c%d" % i, ppid=k.self_pid if kind == "child" else 1,
                        child=(kind == "child"), starttime=10 + i)
                sched.add(pid, et, status_word(pr["status"]))
            obj = psutil.Process.__new__(psutil.Process)
            obj._init(pid, _ignore_nsp=True)
            if case.get("hidden") and kind == "nonchild":
                # (after the object was built: e.g. the process changed user)
                k.procs[pid].hidden = True
                labels.add("nonchild-invisible-in-procfs")
            objs.append(obj)
            specs.append((pid, kind, et, pr["status"]))
        # processes that already exited before the call
        sched.tick(k.now)
        valid_timeout = timeout is None or (timeout == timeout and timeout >= 0)
        needs_exit = timeout is None
        if needs_exit and any(kd != "never" and et is None for _p, kd, et, _s in specs):
            # wait without a timeout on a process that never exits: not generated
            for pid, kd, et, _s in specs:
                if kd != "never" and et is None:
                    sched.exits[pid] = (t0 + 0.5, sched.exits[pid][1])
            specs = [(p_, kd, (t0 + 0.5 if (kd != "never" and et is None) else et), s_)
                     for p_, kd, et, s_ in specs]

        if case["mode"] == "wait":
            pid, kind, et, status = specs[0]
            obj = objs[0]
            for rep in range(case["repeat"] + 1):
                n_log = len(k.log)
                n_sleeps = len(k.sleeps)
                t_call = k.now
                try:
                    val = obj.wait(timeout)
                    exc = None
                except BaseException as e:  # noqa: BLE001
                    val, exc = None, e
                t_ret = k.now
                sleeps = k.sleeps[n_sleeps:]
                log = [e for e in k.log[n_log:] if e is not None]
                desc = (f"wait({timeout!r}) on {kind} pid {pid} exiting at t0+"
                        f"{None if et is None else round(et - t0, 7)} with {status}; call #{rep + 1}")
                if not valid_timeout:
                    if not isinstance(exc, ValueError):
                        raise Violation("invalid-timeout", f"{desc}: {exc!r} {val!r}")
                    if log:
                        raise Violation("invalid-timeout", f"{desc}: made OS accesses")
                    labels.add("invalid-timeout")
                    continue
                exited = et is not None and et <= t_ret + EPS if kind != "never" else True
                if exc is None:
                    # never early
                    if kind != "never" and (et is None or t_ret + EPS < et):
                        raise Violation("returned-early", f"{desc}: returned {val!r} at t0+{t_ret - t0}")
                    want = expected_value(status) if kind == "child" else None
                    if rep > 0 and first_result[0] == "ok":
                        want = first_result[1]
                    if val != want:
                        raise Violation("exit-status", f"{desc}: returned {val!r}, expected {want!r}")
                    if kind == "child" and status[0] == "sig" and rep == 0:
                        sig = status[1] & 0x7f
                        try:
                            name = signal.Signals(sig).name
                        except ValueError:
                            name = None
                        if name is not None and (not isinstance(val, int) or getattr(val, "name", None) != name):
                            raise Violation("negsignal-enum", f"{desc}: {val!r} is not Negsignal.{name}")
                    if rep > 0 and first_result[0] == "ok" and log:
                        raise Violation("cached-value", f"{desc}: a later call made OS accesses {log[:3]}")
                    interrupted = any(e.get("result") == "EINTR" for e in log)
                    if kind == "never" and rep == 0 and not interrupted and (sleeps or t_ret != t_call):
                        raise Violation("never-existed-immediate", f"{desc}: slept {sleeps}")
                    if rep == 0:
                        first_result = ("ok", val)
                    labels.add("returned")
                    # the result is cached now: a negative timeout is still refused
                    for neg in (-1, -0.001):
                        try:
                            r_ = obj.wait(neg)
                        except ValueError:
                            continue
                        except BaseException as e:  # noqa: BLE001
                            raise Violation("invalid-timeout", f"{desc}; then wait({neg}) raised {e!r}") from None
                        raise Violation("invalid-timeout",
                                        f"{desc}; then wait({neg}) returned {r_!r} instead of raising ValueError")
                elif isinstance(exc, psutil.TimeoutExpired):
                    if timeout is None:
                        raise Violation("timeout-without-timeout", desc)
                    deadline = t_call + timeout
                    if exc.seconds != timeout or exc.pid != pid:
                        raise Violation("timeout-fields", f"{desc}: {exc!r}")
                    if t_ret + EPS < deadline:
                        raise Violation("timeout-early", f"{desc}: raised at t+{t_ret - t_call}, deadline {timeout}")
                    if t_ret > deadline + slack + EPS:
                        raise Violation("timeout-late", f"{desc}: raised {t_ret - deadline}s after the deadline")
                    polls = [e for e in log if e["op"] in ("waitpid", "kill")]
                    if kind == "never" and not any(e.get("result") == "EINTR" for e in polls):
                        raise Violation("timeout-for-nonexistent", desc)
                    if et is not None and et <= t_ret - EPS and not sleeps and timeout != 0:
                        pass
                    # the process must have been alive at the last poll
                    # the process must have been alive at the last completed
                    # poll (a poll interrupted by EINTR carries no information)
                    done_polls = [e for e in polls if e.get("result") in ("alive", "reaped", "ECHILD")]
                    if done_polls and done_polls[-1].get("result") != "alive":
                        raise Violation("timeout-though-exited",
                                        f"{desc}: TimeoutExpired although the last poll saw the process gone")
                    last_t = done_polls[-1]["time"] if done_polls else None
                    if et is not None and last_t is not None and et + EPS < last_t:
                        raise Violation("timeout-though-exited",
                                        f"{desc}: TimeoutExpired but the process had exited at t0+{et - t0}, "
                                        f"before the last completed poll at t0+{last_t - t0}")
                    if et is not None and et + EPS < t_ret and not any(
                            e.get("result") == "EINTR" for e in polls) and last_t is not None and et + EPS < last_t:
                        raise Violation("timeout-though-exited", desc)
                    if rep == 0:
                        first_result = ("timeout", None)
                    labels.add("timeout-expired")
                else:
                    import traceback
                    raise Violation("unexpected-exception", f"{desc}: {exc!r} "
                                    + "".join(traceback.format_exception(type(exc), exc, exc.__traceback__))[-400:])
                # sleeps: 0.0001 * 2^k capped at 0.04
                iv = 0.0001
                for (_t, s_) in sleeps:
                    if abs(s_ - iv) > 1e-12:
                        raise Violation("backoff", f"{desc}: sleeps {[x[1] for x in sleeps]}")
                    iv = min(iv * 2, POLL_MAX)
                if timeout == 0 and sleeps:
                    raise Violation("timeout0-sleeps", f"{desc}: {sleeps}")
                if sleeps and max(x[1] for x in sleeps) >= POLL_MAX:
                    labels.add("backoff-capped")
        else:
            called = []
            cb = (lambda p: called.append(p)) if case["callback"] else None
            t_call = k.now
            try:
                inp = list(objs)
                for di, same in case.get("dups", ()):
                    o_ = objs[di % len(objs)]
                    if same:
                        inp.append(o_)
                    else:
                        try:
                            inp.append(psutil.Process(o_.pid))
                        except psutil.Error:
                            pass
                gone, alive = psutil.wait_procs(inp, timeout=timeout, callback=cb)
                exc = None
            except BaseException as e:  # noqa: BLE001
                exc = e
            t_ret = k.now
            desc = f"wait_procs({len(objs)} procs, timeout={timeout!r}) specs {[(p_, kd, None if et is None else round(et - t0, 6), s_) for p_, kd, et, s_ in specs]}"
            if not valid_timeout:
                if not isinstance(exc, ValueError):
                    raise Violation("wait_procs-invalid-timeout", f"{desc}: {exc!r}")
                return Result(["wait_procs-invalid-timeout"])
            if exc is not None:
                import traceback
                raise Violation("wait_procs-exception", f"{desc}: {exc!r} "
                                + "".join(traceback.format_exception(type(exc), exc, exc.__traceback__))[-400:])
            # every input process exactly once, as one of the objects passed in
            out_pids = sorted(x.pid for x in list(gone) + list(alive))
            if out_pids != sorted({o.pid for o in inp}) \
                    or not all(any(x is o for o in inp) for x in list(gone) + list(alive)):
                raise Violation("wait_procs-partition",
                                f"{desc}: input pids {[o.pid for o in inp]}, gone={gone} alive={alive}")
            if len(inp) > len(objs):
                labels.add("wait_procs-duplicate-input")
            last_poll = {}
            for e in k.log:
                if e is not None and e["op"] in ("waitpid", "kill", "open", "read") and e.get("pid") is not None:
                    last_poll[e["pid"]] = e["k"]
            spec_by_pid = {s_[0]: s_ for s_ in specs}
            for p in gone:
                pid, kind, et, status = spec_by_pid[p.pid]
                if kind != "never" and (et is None or et > t_ret + EPS):
                    raise Violation("wait_procs-gone-but-alive", f"{desc}: pid {pid} reported gone")
                want = expected_value(status) if kind == "child" else None
                if not hasattr(p, "returncode") or p.returncode != want:
                    raise Violation("wait_procs-returncode", f"{desc}: pid {pid} returncode "
                                    f"{getattr(p, 'returncode', '<unset>')!r} expected {want!r}")
                if case["callback"] and sum(1 for c in called if c.pid == p.pid) != 1:
                    raise Violation("wait_procs-callback", f"{desc}: callback called "
                                    f"{sum(1 for c in called if c.pid == p.pid)} times for pid {pid}")
            eintr_pids = {e["pid"] for e in k.log if e is not None and e.get("result") == "EINTR"}
            for p in alive:
                pid, kind, et, status = spec_by_pid[p.pid]
                if pid in eintr_pids:
                    continue  # an interrupted poll carries no information
                if kind == "never":
                    raise Violation("wait_procs-alive-nonexistent", f"{desc}: pid {pid} never existed")
                if et is not None and et + EPS < t_call:
                    raise Violation("wait_procs-alive-but-exited-before-call", f"{desc}: pid {pid}")
                if case["callback"] and any(c.pid == p.pid for c in called):
                    raise Violation("wait_procs-callback-alive", f"{desc}: callback for alive pid {pid}")
            if timeout is None and alive:
                raise Violation("wait_procs-alive-without-timeout", f"{desc}: {alive}")
            if timeout is not None and t_ret - t_call > timeout + slack + EPS:
                raise Violation("wait_procs-late", f"{desc}: took {t_ret - t_call}")
            labels.add("wait_procs")
            if len(objs) >= 3:
                labels.add("wait_procs>=3")
            if gone and alive:
                labels.add("wait_procs-mixed")

    place = tuple(procs[0]["place"])
    if case["mode"] == "wait":
        labels.add("place-" + place[0])
        labels.add("kind-" + procs[0]["kind"])
        if case["eintr"]:
            labels.add("eintr")
        if case["repeat"]:
            labels.add("repeated-call")
        labels.add("status-" + procs[0]["status"][0])
    tclass = ("none" if timeout is None else "nan" if timeout != timeout else
              "neg" if timeout < 0 else "0" if timeout == 0 else "tiny" if timeout < 0.001 else
              "<=40ms" if timeout <= 0.04 else ">40ms")
    labels.add("timeout-" + tclass)
    nontrivial = None
    if case["mode"] == "wait_procs" and len(procs) >= 3 and len({str(p["place"]) for p in procs}) >= 2:
        nontrivial = "wait_procs|n=%d|%s|%s" % (len(procs), tclass, ",".join(sorted({p["kind"] for p in procs})))
    elif case["mode"] == "wait" and (place[0] in ("between", "deadline", "after_deadline", "before_deadline", "on")
                                     or case["eintr"]):
        nontrivial = "wait|%s|%s|%s|%s|eintr=%s" % (place[0], procs[0]["kind"], procs[0]["status"][0],
                                                    tclass, bool(case["eintr"]))
    return Result(sorted(labels), nontrivial)


def live_tier(tier, seed, stats):
    import psutil

    n = 0
    for what in [("code", 0), ("code", 1), ("code", 7), ("code", 255), ("sig", 15), ("sig", 9),
                 ("sig", 2), ("sig", 10), ("sig", 6)]:
        if what[0] == "code":
            a = subprocess.Popen([sys.executable, "-c", "import sys; sys.exit(%d)" % what[1]])
            want = what[1]
        else:
            a = subprocess.Popen(["sleep", "60"], preexec_fn=calib.default_signals)
            want = -what[1]
        case = {"live": list(what)}
        p = psutil.Process(a.pid)
        if what[0] == "sig":
            p.send_signal(what[1])
        try:
            got = p.wait(timeout=30)
        except Exception as e:  # noqa: BLE001
            stats.fail(case, Violation("live-wait-exception", repr(e)))
            a.kill()
            continue
        a.returncode = got
        if got != want or p.wait() != want:
            stats.fail(case, Violation("live-wait-value", f"{got!r} expected {want!r}"))
            continue
        n += 1
        stats.record(case, Result(["live-wait"], "live|%s%d" % what), keep_sample=(n == 1))
    stats.notes["live_waits_checked"] = n


PROP = Property(
    id="C15",
    level="exploration",
    rule=("Virtual time.  Hypothesis generates: child / non-child / "
          "never-existed PID; exit instant placed before the call, between "
          "polls i and i+1, exactly on poll i, exactly on / just before / just "
          "after the deadline, or never; exit by code 0-255 or any signal "
          "1-64 with or without core flag; timeout in {None, 0, tiny, <=40 ms, "
          ">40 ms, negative, NaN}; EINTR on any subset of the first 13 "
          "waitpid calls; 0-2 repeated calls; wait_procs with 1-6 such "
          "processes, with or without callback.  The oracle reads the "
          "simulated kernel's log of clock readings, sleeps and polls.  Live "
          "tier: 9 real children (values only).  Non-trivial = exit instant "
          "between two polls / on a poll / around the deadline, EINTR "
          "injected, or wait_procs with >=3 processes and distinct exit "
          "placements; distinct = (placement class, kind, status class, "
          "timeout class, EINTR)."),
    strategy=strategy,
    run_case=run_case,
    budgets={"quick": 24000, "thorough": 250000},
    extra_tiers=[("live", live_tier)],
    assumptions=[
        "wait(timeout=None) on a process that never exits is not generated (would not terminate)",
        "real scheduler latency is not measured: the polling logic is decided in virtual time",
    ],
    trusted_base=["vlib/simk.py waitpid/kill/virtual-time model", "hypothesis"],
)

if __name__ == "__main__":
    main(PROP, "props.c15_wait")
