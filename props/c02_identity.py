"""C02 - Process ==, hash() and is_running() follow the process, not the PID.

Domain: the C01 history language plus system clock steps (the kernel's
published boot time changes), psutil.boot_time(), create_time(), str(),
process_iter(); every pair of objects is compared after every step.
Oracle: ghost incarnation ids.
"""

from hypothesis import strategies as st

from vlib import history
from vlib import simk
from vlib.runner import Property
from vlib.runner import Result
from vlib.runner import Violation
from vlib.runner import main


def strategy(tier):
    nops = 20 if tier == "quick" else 40
    i = st.integers(0, 11)
    ops = [
        st.tuples(st.just("spawn"), i, st.booleans(), st.sampled_from([False, False, True])),
        st.tuples(st.just("exit"), i),
        st.tuples(st.just("reap"), i),
        st.tuples(st.just("recycle"), i, st.booleans()),
        st.tuples(st.just("become"), i),
        st.tuples(st.just("rename"), i, st.integers(0, 9)),
        st.tuples(st.just("mkproc"), i),
        st.tuples(st.just("mkproc"), i),
        # a psutil.Popen object (a Process subclass) around the listed child;
        # somebody else (another object's wait(), a SIGCHLD reaper) may reap it
        st.tuples(st.just("mkproc"), i, st.just("popen-class")),
        st.tuples(st.just("clock_step"), st.sampled_from([-3600, -1, 1, 2, 37, 3600, 86400, -86400])),
        # a board without RTC: the clock jumps from 1970 to today (and the
        # published boot time crosses many powers of two), or back
        st.tuples(st.just("clock_step"), st.sampled_from([-1699999993, 1699999993, -10**9, 10**9, 2**31, 2**32,
                                                          -2**31, 10**10])),
        st.tuples(st.just("clock_step"), st.integers(-10**6, 10**6)),
        st.tuples(st.just("boot_time")),
        st.tuples(st.just("boot_time")),
        st.tuples(st.just("create_time"), i),
        st.tuples(st.just("is_running"), i),
        st.tuples(st.just("is_running"), i),
        st.tuples(st.just("process_iter"), st.integers(0, 8)),
        st.tuples(st.just("str"), i),
        # is_running() while the kernel refuses one access with a transient
        # error (out of file descriptors / memory, I/O error): no verdict may
        # be latched from it
        st.tuples(st.just("is_running_fault"), i, st.sampled_from(["EMFILE", "ENFILE", "ENOMEM", "EIO"]),
                  st.integers(0, 3)),
        st.tuples(st.just("query"), i, st.sampled_from(["name", "as_dict", "ppid", "parent", "children"])),
    ] + history.extra_ops()
    return st.fixed_dictionaries(dict(
        setup=st.integers(0, 63),
        tick0=st.sampled_from([False, False, True]),   # first pool process starts at tick 0
        # process names with parentheses / blanks (the stat record must be cut at the LAST ')')
        odd_comm=st.booleans(),
        ops=history.with_motifs(ops, 4, nops),
    ))


def run_case(case):
    import psutil

    w = history.World(first_tick=-1 if case.get("tick0") else 100, odd_comm=case.get("odd_comm", False))
    k = w.k
    labels = set()
    sig = []
    stepped = False
    boot_after_step = False

    def check_all(after):
        objs = w.objs
        for o in objs:
            try:
                h = hash(o.proc)
            except Exception as e:  # noqa: BLE001
                raise Violation("hash-raises", f"{e!r} after {after}") from None
            if o.hash0 is None:
                o.hash0 = h
            elif h != o.hash0:
                raise Violation("hash-changed", f"pid {o.pid}: hash changed after {after}")
        for a_i, a in enumerate(objs):
            for b in objs[a_i:]:
                same = a.pid == b.pid and a.inc == b.inc
                try:
                    eq = a.proc == b.proc
                    ne = a.proc != b.proc
                except Exception as e:  # noqa: BLE001
                    raise Violation("eq-raises", f"{e!r} after {after}") from None
                if eq != same or ne == eq:
                    raise Violation(
                        "eq", f"objects for pid {a.pid} (incarnation {a.inc}) and pid {b.pid} "
                        f"(incarnation {b.inc}): == is {eq}, != is {ne}, after {after}; "
                        f"history {case['ops']}")
                if same and hash(a.proc) != hash(b.proc):
                    raise Violation("hash-eq", f"equal objects hash differently after {after}")
                if (not same and a.pid == b.pid and hash(a.proc) == hash(b.proc)):
                    # "hash alike exactly when ... same process start": two
                    # incarnations on one PID must not share a hash (a chance
                    # collision of the tuple hash has probability ~2^-61)
                    raise Violation("hash-distinguishes-incarnations",
                                    f"objects for two different processes on pid {a.pid} hash alike after {after}")

    with simk.installed(k):
        for i, pid in enumerate(history.PID_POOL):
            if case["setup"] >> i & 1:
                w.spawn(pid, child=bool(i & 1))
                w.mkproc(pid, via_popen="popen-class" if i % 4 == 3 else False)
        check_all("setup")
        for op in case["ops"]:
            kind = op[0]
            if kind == "spawn":
                w.spawn(w.pick_pid(op[1]), child=op[2], zombie=op[3])
            elif kind == "exit":
                w.exit(w.pick_pid(op[1]))
            elif kind == "reap":
                w.reap(w.pick_pid(op[1]))
            elif kind == "become":
                w.become(w.pick_pid(op[1]))
            elif kind == "rename":
                w.rename(w.pick_pid(op[1]), op[2])
                labels.add("renamed-itself")
            elif kind == "recycle":
                if w.recycle(w.pick_pid(op[1]), zombie=op[2]) is not None:
                    sig.append("recycle")
            elif kind == "mkproc":
                try:
                    pid_ = w.pick_pid(op[1])
                    if len(op) > 2 and w.owner_inc(pid_) is not None:
                        o = w.mkproc(pid_, via_popen=op[2])
                        sig.append("popen-object")
                    else:
                        o = w.mkproc(pid_)
                except psutil.NoSuchProcess as e:
                    raise Violation("constructor", f"{e!r} for a listed PID") from None
                if o is not None and stepped:
                    sig.append("object-after-step")
            elif kind == "clock_step":
                k.btime = max(0, k.btime + op[1])
                stepped = True
                sig.append("step")
            elif kind == "boot_time":
                bt = psutil.boot_time()
                if bt != float(k.btime):
                    raise Violation("boot_time", f"{bt} != {k.btime}")
                if stepped:
                    boot_after_step = True
                    sig.append("boot_time-after-step")
            elif kind == "create_time":
                o = w.pick_obj(op[1])
                if o is not None:
                    try:
                        o.proc.create_time()
                    except psutil.Error:
                        pass
            elif kind == "is_running":
                # indices 10, 11 ask every object in turn
                for o in (list(w.objs) if op[1] >= 10 else [w.pick_obj(op[1])]):
                    if o is None:
                        continue
                    try:
                        r = o.proc.is_running()
                    except Exception as e:  # noqa: BLE001
                        raise Violation("is_running-raises", repr(e)) from None
                    alive = w.alive(o)
                    if r != alive:
                        raise Violation(
                            "is_running",
                            f"pid {o.pid} incarnation {o.inc}: is_running() = {r}, "
                            f"process in table = {alive} (owner {w.owner_inc(o.pid)}); "
                            f"history {case['ops']}")
                    if not r:
                        o.seen_not_running = True
                    elif o.seen_not_running:
                        raise Violation("is_running-resurrected", f"pid {o.pid}")
                    sig.append("is_running")
            elif kind == "is_running_fault":
                o = w.pick_obj(op[1])
                if o is not None:
                    import errno as _errno
                    k.arm([simk.Fault(op[3], "deny", o.pid, getattr(_errno, op[2]))])
                    try:
                        r = o.proc.is_running()
                    except OSError as e:
                        r = e       # the environment's failure comes through: fine
                    except Exception as e:  # noqa: BLE001
                        raise Violation("is_running-raises", f"{e!r} under a transient {op[2]}") from None
                    finally:
                        k.arm([])
                    alive = w.alive(o)
                    if not isinstance(r, OSError) and r != alive:
                        raise Violation("is_running", f"pid {o.pid}: is_running() = {r} while one access failed "
                                                      f"with {op[2]}; process in table = {alive}; history {case['ops']}")
                    # afterwards, with the fault gone, the answer is the right one
                    r2 = o.proc.is_running()
                    if r2 != alive:
                        raise Violation("is_running", f"pid {o.pid}: is_running() = {r2} after a transient {op[2]} "
                                                      f"during an earlier call; process in table = {alive}; "
                                                      f"history {case['ops']}")
                    if not r2:
                        o.seen_not_running = True
                    sig.append("is_running")
                    labels.add("is_running-under-transient-error")
            elif kind == "process_iter":
                it = psutil.process_iter()
                for _ in range(op[1]):
                    if next(it, None) is None:
                        break
                it.close()
            elif kind == "str":
                o = w.pick_obj(op[1])
                if o is not None:
                    for f in (str, repr):
                        try:
                            s_ = f(o.proc)
                        except Exception as e:  # noqa: BLE001
                            raise Violation("str-raises", f"{e!r}") from None
                        if f"pid={o.pid}" not in s_:
                            raise Violation("str-pid", s_)
            elif kind == "query":
                o = w.pick_obj(op[1])
                if o is not None:
                    try:
                        getattr(o.proc, op[2])()
                    except psutil.Error:
                        pass
            else:
                w.apply_extra(op)
            check_all(op)
        w.close_blocks()
    for e in w.events:
        if e[0] in ("oneshot-enter", "wait-returned", "kept-from-process_iter", "became"):
            labels.add("history-with-" + e[0])

    pids = [o.pid for o in w.objs]
    if len(pids) != len(set(pids)):
        labels.add("two-objects-one-pid")
    if any(not w.alive(o) and w.owner_inc(o.pid) is not None for o in w.objs):
        labels.add("old-object-new-owner")
    if stepped:
        labels.add("clock-step")
    if boot_after_step:
        labels.add("boot_time-after-step")
    nontrivial = None
    key = []
    if "boot_time-after-step" in sig and ("is_running" in sig[sig.index("boot_time-after-step"):]
                                          or "object-after-step" in sig):
        key.append("step->boot_time->identity-query")
    if "old-object-new-owner" in labels and "two-objects-one-pid" in labels:
        key.append("recycle->compare-old-new")
    if key:
        nontrivial = "|".join(key) + "|" + ",".join(sorted(set(sig)))
        labels.update(key)
    return Result(sorted(labels) or ["plain"], nontrivial)


PROP = Property(
    id="C02",
    level="exploration",
    rule=("Hypothesis generates histories (<= 20 ops, thorough 40) over a "
          "simulated process table with 6 recyclable PIDs: spawn / exit / reap "
          "/ recycle (live or zombie), object creation at any point, system "
          "clock steps (the btime line of /proc/stat changes by -10^6..10^6 "
          "s), psutil.boot_time(), create_time(), is_running(), "
          "process_iter() (partial), str()/repr(), other queries; after EVERY "
          "step all object pairs are compared (==, !=, hash) against ghost "
          "incarnation ids and every hash must stay constant.  Non-trivial = "
          "a history with (clock step -> boot_time() -> identity query or new "
          "object) or (recycle -> comparison of an old and a new object on "
          "the same PID); distinct = event-kind signature."),
    strategy=strategy,
    run_case=run_case,
    budgets={"quick": 20000, "thorough": 200000},
    assumptions=[
        "a PID reused within the same clock tick is not generated",
        "objects are created only for listed PIDs (the born-gone Popen path is C01's)",
    ],
    trusted_base=["vlib/simk.py", "vlib/history.py", "hypothesis"],
)

if __name__ == "__main__":
    main(PROP, "props.c02_identity")
