"""C16 - oneshot() and as_dict() change speed, never answers; safe across
threads.

(a) Sequential op-lists on one object: enter / exit / nested enter / method
call / process-state change / exception leaving the block / as_dict with
valid, unknown and non-collection attrs / deny, zombify, vanish.
Oracle: differential - inside a block a method must return what a plain call
on a fresh object returns against the process state its source had when it was
first read in that block; shared sources are read at most once per block.
(b) Schedules (vlib.detsched): thread 0 runs a oneshot block or as_dict(),
threads 1-2 call plain methods on the same object, a kernel step mutates the
process; pre-emptions at source-line granularity.
"""

import os
import sys
import warnings

from hypothesis import strategies as st

from vlib import detsched
from vlib import simk
from vlib.runner import Property
from vlib.runner import Result
from vlib.runner import Violation
from vlib.runner import main

PID = 700
ROOT = "/simroot"

# method -> pin key (which cached source decides the version inside a block)
PIN = {
    "name": "stat", "status": "stat", "terminal": "stat", "cpu_num": "stat",
    "cpu_times": "stat", "ppid": "stat", "parent": "stat",
    "uids": "status", "gids": "status", "num_ctx_switches": "status",
    "num_threads": "status", "username": "status",
    "memory_maps": "smaps",
    "memory_info": "meminfo", "memory_percent": "meminfo",
}
UNPINNED = ["cmdline", "cwd", "environ", "io_counters", "num_fds", "open_files",
            "threads", "nice", "ionice", "cpu_affinity", "memory_full_info",
            "net_connections", "create_time", "exe"]
# composite observations (appended last: indices of the others are stable):
# cpu_percent() reads the platform-level CPU times straight from the shared
# stat record, then the public cpu_times() must still give the block's answer
COMPOSITE = {"cpu_percent+cpu_times": "stat"}
METHODS = sorted(PIN) + UNPINNED + sorted(COMPOSITE)
SHARED_FILES = ("stat", "status", "smaps")


# how /proc/<pid>/smaps_rollup behaves in the current case: None (readable),
# "esrch" / "enoent" (memory_full_info() falls back to /proc/<pid>/smaps,
# which memory_maps() reads too: one shared source)
ROLLUP = [None]


def apply_version(k, v, zombie=False, denied=(), gone=False):
    """(Re)write process PID so that every source renders differently for
    every version."""
    if gone:
        k.vanish(PID)
        return
    threads = [simk.Thread(PID, b"nm%d" % v, 10 + 3 * v, 20 + 5 * v)]
    for i in range(v % 3):
        threads.append(simk.Thread(PID + 1 + i, b"w", i + v, 2 * i))
    fds = {3 + i: simk.FD(f"{ROOT}/f{i}", pos=v) for i in range(1 + v % 2)}
    maps = [simk.Mapping(addr="00400000-00401000", perms="r-xp", path=f"{ROOT}/bin/app",
                         inode=5,
                         fields=[("Size", 4), ("Rss", 4 + v), ("Pss", 2 + v),
                                 ("Shared_Clean", 0), ("Shared_Dirty", 0),
                                 ("Private_Clean", v), ("Private_Dirty", 1),
                                 ("Referenced", 4), ("Anonymous", 0), ("Swap", v)])]
    old = k.procs.get(PID)
    p = simk.Proc(
        PID, comm=b"nm%d" % v, state=[b"S", b"R", b"D"][v % 3] if not zombie else b"Z",
        ppid=[400, 401][v % 2], utime=10 + 3 * v, stime=20 + 5 * v, cutime=v, cstime=2 * v,
        starttime=777, processor=v % 4, threads=threads, fds=fds, maps=maps,
        uids=(1000 + v,) * 4, gids=(2000 + v,) * 4, vctx=7 + v, nvctx=3 + 2 * v,
        cmdline=b"cmd%d\0arg\0" % v, environ=b"V=%d\0" % v, exe=f"{ROOT}/bin/app",
        cwd=f"{ROOT}/cwd{v}", nice=v % 5, ioprio=(2, v % 8), affinity={v % 4},
        statm=(100 + v, 50 + v, 10, 5, 0, 20 + v, 0), zombie=zombie,
        unreadable=set(denied), tty_nr=0x8800 + v % 2,
    )
    p.io_counters["syscr"] = v
    if ROLLUP[0] is not None:
        p.rollup = ROLLUP[0]      # the roll-up file fails: the per-mapping listing is the source
    if old is not None:
        p.inc = old.inc
    k.procs[PID] = p


def base_kernel():
    k = simk.Kernel(ncpus=4)
    k.add_default_sysfiles()
    k.spawn(1, comm=b"init", ppid=0, starttime=1)
    k.spawn(400, comm=b"pa", ppid=1, starttime=5)
    k.spawn(401, comm=b"pb", ppid=1, starttime=6)
    k.set_file(f"{ROOT}/bin/app", b"\x7fELF")
    for i in range(2):
        k.set_file(f"{ROOT}/f{i}", b"x")
    k.mkdir("/dev/pts")
    k.set_file("/dev/pts/0", simk.Dev(0x8800))
    k.set_file("/dev/pts/1", simk.Dev(0x8801))
    return k


def call_method(p, m):
    import psutil

    with warnings.catch_warnings():
        warnings.simplefilter("ignore")
        try:
            if m == "memory_maps":
                v = p.memory_maps(grouped=False)
            elif m == "parent":
                r = p.parent()
                v = None if r is None else ("Process", r.pid)
            elif m == "cpu_percent+cpu_times":
                p.cpu_percent()
                v = p.cpu_times()
            else:
                v = getattr(p, m)()
            return ("ok", v)
        except psutil.ZombieProcess:
            return ("exc", "ZombieProcess")
        except psutil.NoSuchProcess:
            return ("exc", "NoSuchProcess")
        except psutil.AccessDenied:
            return ("exc", "AccessDenied")


_REF = {}


def reference(m, state):
    """What a plain call on a fresh object returns for this process state."""
    import psutil

    key = (m, state, ROLLUP[0])
    if key in _REF:
        return _REF[key]
    v, zombie, denied, gone = state
    k = base_kernel()
    apply_version(k, v, zombie, denied, gone)
    with simk.installed(k):
        try:
            p = psutil.Process(PID)
        except psutil.NoSuchProcess:
            out = ("exc", "NoSuchProcess")
        else:
            out = call_method(p, m)
    _REF[key] = out
    return out


def strategy(tier):
    nops = 16 if tier == "quick" else 32
    mi = st.integers(0, len(METHODS) - 1)
    seq_ops = [
        st.tuples(st.just("enter")), st.tuples(st.just("enter")),
        st.tuples(st.just("exit")),
        st.tuples(st.just("raise_in_block")),
        st.tuples(st.just("call"), mi), st.tuples(st.just("call"), mi),
        st.tuples(st.just("call"), mi), st.tuples(st.just("call"), mi),
        st.tuples(st.just("mutate")), st.tuples(st.just("mutate")),
        st.tuples(st.just("as_dict"),
                  st.sampled_from(["all", "subset", "subset", "unknown", "nonlist", "empty"]),
                  st.lists(mi, min_size=1, max_size=5),
                  st.sampled_from([None, "N/A", 0])),
        # a whole block: enter, calls, mutation, more calls, exit or exception
        st.tuples(st.just("script"), st.lists(mi, min_size=1, max_size=3),
                  st.lists(mi, min_size=1, max_size=4), st.booleans()),
        st.tuples(st.just("script"), st.lists(mi, min_size=1, max_size=3),
                  st.lists(mi, min_size=1, max_size=4), st.booleans()),
        st.tuples(st.just("deny"), st.sampled_from(["io", "stat", "status", "smaps", "fd", "cmdline"])),
        st.tuples(st.just("undeny")),
        st.tuples(st.just("zombify")),
        st.tuples(st.just("vanish")),
    ]
    seq = st.fixed_dictionaries(dict(
        mode=st.just("seq"),
        rollup=st.sampled_from([None, None, "esrch", "enoent"]),
        ops=st.lists(st.one_of(*seq_ops), min_size=3, max_size=nops),
    ))
    sched = st.fixed_dictionaries(dict(
        mode=st.just("sched"),
        main=st.sampled_from(["oneshot", "oneshot", "as_dict"]),
        main_calls=st.lists(st.sampled_from(sorted(PIN) + ["cmdline", "num_fds"]), min_size=1, max_size=4),
        # other threads call plain methods, or open their own oneshot() block /
        # call as_dict() on the same object ("block:<method>")
        others=st.lists(st.lists(st.sampled_from(sorted(PIN) + ["cmdline", "block:name", "block:uids",
                                                                "block:as_dict"]),
                                 min_size=1, max_size=3),
                        min_size=1, max_size=2),
        mutate=st.booleans(),
        schedule=st.lists(st.tuples(st.integers(0, 3), st.integers(1, 40)),
                          min_size=1, max_size=4 if tier == "quick" else 8),
    ))
    return st.one_of(seq, seq, sched)


# ---------------------------------------------------------------- sequential


def run_seq(case):
    import psutil

    k = base_kernel()
    state = [0, False, (), False]  # version, zombie, denied, gone
    apply_version(k, 0)
    labels = set()
    flag_is_running = [False]

    def hook(entry):
        f = sys._getframe(2)
        depth = 0
        while f is not None and depth < 40:
            if f.f_code.co_name == "is_running" and f.f_code.co_filename.endswith("__init__.py"):
                entry["in_is_running"] = True
                break
            f = f.f_back
            depth += 1

    def cur():
        return (state[0], state[1], tuple(sorted(state[2])), state[3])

    blocks = []  # stack of context managers
    pins = {}
    block_log_start = [None]
    block_dirty = [False]

    CACHE_NAMES = {"stat": ("_proc", "_parse_stat_file"), "status": ("_proc", "_read_status_file"),
                   "smaps": ("_proc", "_read_smaps_file"), "meminfo": ("", "memory_info")}

    def sync_pins():
        """A source counts as 'first read' once psutil holds it in the block's
        cache (observed on the object; a failed read is not cached)."""
        for key, (where, fname) in CACHE_NAMES.items():
            if key in pins:
                continue
            holder = p._proc if where else p
            cache = getattr(holder, "_cache", None)
            if cache and any(getattr(f, "__name__", "") == fname for f in cache):
                pins[key] = cur()

    def end_block_checks():
        if block_log_start[0] is None or block_dirty[0]:
            return
        for name in SHARED_FILES:
            n = sum(1 for e in k.log[block_log_start[0]:]
                    if e is not None and e["op"] == "open" and e["path"] == f"/proc/{PID}/{name}"
                    and not e.get("in_is_running"))
            if n > 1:
                raise Violation("read-at-most-once",
                                f"/proc/{PID}/{name} opened {n} times inside one oneshot block; ops {case['ops']}")
        labels.add("block-read-counts-checked")

    with simk.installed(k):
        k.access_hook = hook
        p = psutil.Process(PID)
        expanded = []
        for op in case["ops"]:
            if op[0] == "script":
                expanded.append(("enter",))
                expanded += [("call", i) for i in op[1]]
                expanded.append(("mutate",))
                expanded += [("call", i) for i in op[1]]
                expanded += [("call", i) for i in op[2]]
                expanded.append(("raise_in_block",) if op[3] else ("exit",))
                expanded += [("call", i) for i in op[1][:1]]
            else:
                expanded.append(op)
        for op in expanded:
            kind = op[0]
            if blocks:
                # whatever the previous op read inside the open block (also an
                # as_dict() that ended with an exception) is pinned from here on
                sync_pins()
            if kind == "enter":
                cm = p.oneshot()
                cm.__enter__()
                if not blocks:
                    pins.clear()
                    block_log_start[0] = len(k.log)
                    # failed reads are not cached and error paths probe the
                    # stat file themselves: count reads only in clean blocks
                    block_dirty[0] = bool(state[1] or state[2] or state[3])
                else:
                    labels.add("nested-enter")
                blocks.append(cm)
            elif kind in ("exit", "raise_in_block"):
                if not blocks:
                    continue
                cm = blocks.pop()
                if kind == "exit":
                    cm.__exit__(None, None, None)
                else:
                    try:
                        cm.__exit__(ValueError, ValueError("boom"), None)
                    except ValueError:
                        pass
                    labels.add("exception-leaves-block")
                if not blocks:
                    end_block_checks()
                    pins.clear()
                    block_log_start[0] = None
                    if hasattr(p, "_cache") or hasattr(p._proc, "_cache"):
                        raise Violation("cache-left-active", f"cache still active after the block ended; ops {case['ops']}")
            elif kind == "mutate":
                state[0] += 1
                if not state[3]:
                    apply_version(k, *cur())
                if blocks:
                    labels.add("mutate-inside-block")
            elif kind == "deny":
                state[2] = tuple(sorted(set(state[2]) | {op[1]}))
                state[0] += 1
                if not state[3]:
                    apply_version(k, *cur())
                block_dirty[0] = True
            elif kind == "undeny":
                state[2] = ()
                state[0] += 1
                if not state[3]:
                    apply_version(k, *cur())
            elif kind == "zombify":
                state[1] = True
                state[0] += 1
                if not state[3]:
                    apply_version(k, *cur())
                block_dirty[0] = True
            elif kind == "vanish":
                state[3] = True
                k.vanish(PID)
                block_dirty[0] = True
            elif kind == "call":
                m = METHODS[op[1]]
                got = call_method(p, m)
                key = PIN.get(m) or COMPOSITE.get(m)
                if blocks and key is not None:
                    if key not in pins:
                        sync_pins()
                        exp_state = cur()
                    else:
                        exp_state = pins[key]
                        labels.add("served-from-cache")
                        if exp_state != cur():
                            labels.add("cached-after-mutate")
                else:
                    exp_state = cur()
                if blocks:
                    sync_pins()
                if m in ("create_time", "exe"):
                    continue  # memoised for the life of the object
                plain = lambda s_: not (s_[1] or s_[2] or s_[3])  # noqa: E731
                if exp_state != cur() and not (plain(exp_state) and plain(cur())):
                    # error paths consult uncached probes (zombie / existence
                    # checks): a cached source mixed with a different error
                    # state has no single "moment" to compare with
                    labels.add("skipped-error-state-mix")
                    continue
                exp = reference(m, exp_state)
                if m == "ppid" or m == "parent":
                    # the identity pre-check looks at the live PID
                    if state[3] and got == ("exc", "NoSuchProcess"):
                        continue
                if (got != exp and m == "memory_full_info" and blocks and "smaps" in pins
                        and got[0] == "ok" and exp[0] == "ok"):
                    # when the roll-up file fails, uss/pss/swap come from the
                    # (cached) per-mapping file: first read of *that* source
                    alt = reference(m, pins["smaps"])
                    if alt[0] == "ok" and tuple(got[1][:7]) == tuple(exp[1][:7]) \
                            and tuple(got[1][7:]) == tuple(alt[1][7:]):
                        labels.add("mixed-source-method")
                        continue
                if (got != exp and m == "memory_full_info" and blocks and "smaps" in pins
                        and pins["smaps"] != cur()):
                    # roll-up unavailable (missing, or the process is a zombie /
                    # unreadable): the smaps part comes from the
                    # block's first read of smaps (readable then, whatever it
                    # is now), the statm part from now - no single moment
                    alt = reference(m, pins["smaps"])
                    if got[0] == "ok" and (alt[0] != "ok" or tuple(got[1][7:]) == tuple(alt[1][7:])):
                        labels.add("mixed-source-method")
                        continue
                if got != exp:
                    raise Violation(
                        "answer-changed",
                        f"{m}() {'inside' if blocks else 'outside'} a block returned {got!r}; a plain "
                        f"call at the state of its source's first read {exp_state} returns {exp!r}; "
                        f"current state {cur()}; ops {case['ops']}")
            elif kind == "as_dict":
                _, how, idxs, ad = op
                names = sorted({METHODS[i] for i in idxs} - {"parent"} - set(COMPOSITE))
                n0 = len(k.log)
                if how in ("unknown", "nonlist"):
                    bad = BAD_NAMES[sum(idxs) % len(BAD_NAMES)]
                    arg = names + [bad] if how == "unknown" else "name"
                    if how == "unknown" and bad != "bogus_attr":
                        labels.add("as_dict-rejected-real-attribute")
                    want_exc = ValueError if how == "unknown" else TypeError
                    try:
                        p.as_dict(attrs=arg, ad_value=ad)
                        raise Violation("as_dict-validation", f"as_dict({arg!r}) accepted")
                    except want_exc:
                        pass
                    except Violation:
                        raise
                    except Exception as e:  # noqa: BLE001
                        raise Violation("as_dict-validation", f"as_dict({arg!r}) raised {e!r}") from None
                    if len(k.log) != n0:
                        raise Violation("as_dict-validation", "OS accesses were made before rejecting the attrs")
                    labels.add("as_dict-rejected")
                    continue
                attrs = None if how == "all" else ([] if how == "empty" else names)
                with warnings.catch_warnings():
                    warnings.simplefilter("ignore")
                    try:
                        d = p.as_dict(attrs=attrs, ad_value=ad)
                        exc = None
                    except psutil.NoSuchProcess as e:
                        d, exc = None, e
                    except Exception as e:  # noqa: BLE001
                        import traceback
                        raise Violation("as_dict-exception", f"{e!r} " + traceback.format_exc()[-300:]) from None
                if state[3]:
                    asked = set(psutil._as_dict_attrnames) if not attrs else set(attrs)
                    served = {m for m in asked if PIN.get(m) in pins} if blocks else set()
                    if exc is None and asked - {"create_time", "exe", "pid"} - served:
                        raise Violation("as_dict-gone", f"as_dict returned {d!r} for a vanished process")
                    continue
                if exc is not None:
                    # legitimate iff a plain call of some requested attribute
                    # raises NoSuchProcess in the current state
                    asked = set(psutil._as_dict_attrnames) if not attrs else set(attrs)
                    if any(reference(m, pins.get(PIN.get(m), cur()) if blocks else cur())
                           == ("exc", "NoSuchProcess") for m in asked & set(METHODS)):
                        labels.add("as_dict-propagates-nsp")
                        continue
                    raise Violation("as_dict-nsp-for-live", repr(exc))
                want_keys = set(psutil._as_dict_attrnames) if not attrs else set(attrs)
                if set(d) != want_keys:
                    raise Violation("as_dict-keys", f"{sorted(d)} expected {sorted(want_keys)}")
                for m in sorted(set(d) & set(METHODS)):
                    if m in ("create_time", "exe", "parent"):
                        continue
                    key = PIN.get(m)
                    exp_state = pins.get(key, cur()) if (blocks and key) else cur()
                    plain = lambda s_: not (s_[1] or s_[2] or s_[3])  # noqa: E731
                    if exp_state != cur() and not (plain(exp_state) and plain(cur())):
                        continue
                    exp = reference(m if m != "memory_maps" else "memory_maps", exp_state)
                    if m == "memory_maps":
                        continue  # as_dict uses the grouped form
                    if m == "memory_full_info" and blocks and "smaps" in pins:
                        continue  # mixed-source method, see the call branch
                    if exp[0] == "exc":
                        if exp[1] == "NoSuchProcess":
                            continue
                        want = ad
                    else:
                        want = exp[1]
                    if d[m] != want:
                        raise Violation("as_dict-value",
                                        f"as_dict()[{m!r}] = {d[m]!r}, plain call gives {exp!r} "
                                        f"(ad_value {ad!r}); state {exp_state}; ops {case['ops']}")
                # as_dict pins the shared sources of an enclosing block
                if blocks:
                    sync_pins()
                labels.add("as_dict")
        while blocks:
            blocks.pop().__exit__(None, None, None)
        k.access_hook = None
    sig = labels & {"cached-after-mutate", "exception-leaves-block", "nested-enter", "as_dict",
                    "as_dict-rejected", "served-from-cache"}
    nontrivial = None
    if labels & {"cached-after-mutate", "exception-leaves-block"}:
        kinds = sorted({op[0] if op[0] != "call" else "call:" + str(PIN.get(METHODS[op[1]]) or COMPOSITE.get(METHODS[op[1]])) for op in expanded})
        nontrivial = "seq|" + ",".join(sorted(sig)) + "|" + ",".join(kinds)
    return Result(sorted(labels) or ["plain"], nontrivial)


# ---------------------------------------------------------------- schedules


def run_sched(case):
    import psutil

    k = base_kernel()
    version = [0]
    history = [(0, 0)]  # (access-log position, version) - versions in order
    apply_version(k, 0)
    psdir = os.path.dirname(psutil.__file__)
    sched = detsched.Scheduler(psdir)
    records = []  # (thread, method, v_lo, v_hi, outcome)
    block = {"active_since": None}
    labels = set()

    with simk.installed(k):
        # how often the same calls open the shared files in a block when no
        # other thread is around (identity probes of ppid()/parent() and zombie
        # probes read stat through other objects / uncached paths)
        baseline = {}
        if case["main"] == "oneshot":
            import threading
            p0 = psutil.Process(PID)
            n0 = len(k.log)
            with p0.oneshot():
                for m in case["main_calls"]:
                    call_method(p0, m)
            for e in k.log[n0:]:
                if e is not None and e["op"] == "open" and e["path"] in (f"/proc/{PID}/stat", f"/proc/{PID}/status"):
                    baseline[e["path"]] = baseline.get(e["path"], 0) + 1
        p = psutil.Process(PID)
        p._lock = detsched.CoopLock(sched)

        # blocks opened by the *other* threads (their own oneshot() /
        # as_dict()): the object's cache may have been activated - and
        # filled - by any of them, so a call made while one is open may be
        # served with what that block read first
        open_blocks = {}

        def timed_call(tidx, m, in_block):
            v_start = version[0]
            lo = min([v_start] + list(open_blocks.values()))
            if block["active_since"] is not None:
                lo = min(lo, block["active_since"])
            try:
                out = call_method(p, m)
            except BaseException as e:  # noqa: BLE001
                out = ("raised", e)
            hi = version[0]
            lo = min([lo] + list(open_blocks.values()))
            if block["active_since"] is not None:
                lo = min(lo, block["active_since"])
            records.append((tidx, m, lo, hi, out))

        def main_thread():
            if case["main"] == "oneshot":
                block["active_since"] = version[0]
                import threading
                me = threading.get_ident()
                n0 = len(k.log)
                try:
                    with p.oneshot():
                        for m in case["main_calls"]:
                            timed_call(0, m, True)
                        block["reads"] = [e["path"] for e in k.log[n0:]
                                          if e is not None and e["op"] == "open" and e["thread"] == me
                                          and e["path"] in (f"/proc/{PID}/stat", f"/proc/{PID}/status")]
                finally:
                    pass
                block["ended_at"] = version[0]
            else:
                block["active_since"] = version[0]
                v0 = version[0]
                try:
                    d = p.as_dict(attrs=[m for m in case["main_calls"] if m != "parent"] or ["name"])
                    out = ("ok", d)
                except BaseException as e:  # noqa: BLE001
                    out = ("raised", e)
                records.append((0, "as_dict", v0, version[0], out))

        def other(i, calls):
            def run():
                for m in calls:
                    if m == "block:as_dict":
                        open_blocks[(i, "as_dict")] = version[0]
                        try:
                            p.as_dict(attrs=["name", "status"])
                        except psutil.Error:
                            pass
                        finally:
                            open_blocks.pop((i, "as_dict"), None)
                    elif m.startswith("block:"):
                        open_blocks[(i, "oneshot")] = version[0]
                        try:
                            with p.oneshot():
                                timed_call(i, m.split(":", 1)[1], False)
                        finally:
                            open_blocks.pop((i, "oneshot"), None)
                    else:
                        timed_call(i, m, False)
            return run

        def kernel_step():
            version[0] += 1
            apply_version(k, version[0])

        fns = [main_thread] + [other(i + 1, c) for i, c in enumerate(case["others"])]
        if case["mutate"]:
            fns.append(kernel_step)
        try:
            results, errors, sites = sched.run(fns, case["schedule"])
        except detsched.Deadlock as e:
            raise Violation("deadlock", f"{e}; case {case}") from None
    for i, e in errors.items():
        if isinstance(e, detsched.StepBound):
            raise Violation("step-bound", f"thread {i} exceeded the step bound; case {case}")
        import traceback
        raise Violation("thread-exception",
                        f"thread {i} raised {e!r}: "
                        + "".join(traceback.format_exception(type(e), e, e.__traceback__))[-600:]
                        + f"; case {case}")
    reads = block.get("reads") or []
    for path in set(reads):
        if reads.count(path) > max(1, baseline.get(path, 0)):
            raise Violation("read-at-most-once",
                            f"{path} opened {reads.count(path)} times by the thread that owns the oneshot() block "
                            f"(the same calls alone in a block: {baseline.get(path, 0)}) "
                            f"(other threads: {case['others']}); schedule {case['schedule']} sites {sites}")
    for tidx, m, lo, hi, out in records:
        if out[0] == "raised":
            e = out[1]
            import traceback
            raise Violation("spurious-error",
                            f"thread {tidx}: {m}() raised {e!r} "
                            + "".join(traceback.format_exception(type(e), e, e.__traceback__))[-500:]
                            + f"; schedule {case['schedule']} sites {sites}")
        if m == "as_dict":
            d = out[1]
            for name, val in d.items():
                if name in ("create_time", "exe", "memory_maps"):
                    continue
                ok = any(reference(name, (v, False, (), False)) == ("ok", val) for v in range(lo, hi + 1))
                if not ok:
                    raise Violation("as_dict-value-never-valid",
                                    f"as_dict()[{name!r}] = {val!r} matches no process state in versions "
                                    f"{lo}..{hi}; schedule {case['schedule']}")
            continue
        ok = any(reference(m, (v, False, (), False)) == out for v in range(lo, hi + 1))
        if not ok:
            raise Violation(
                "value-never-valid",
                f"thread {tidx}: {m}() returned {out!r}, not valid at any moment of the call "
                f"(versions {lo}..{hi}: {[reference(m, (v, False, (), False)) for v in range(lo, hi + 1)]}); "
                f"schedule {case['schedule']} pre-emption sites {sites}")
    site_names = sorted({s[1][2] for s in sites if s and s[1]})
    hot = [s for s in site_names if s in ("wrapper", "oneshot", "cache_activate", "cache_deactivate",
                                           "oneshot_enter", "oneshot_exit")]
    labels.add("sched")
    labels.add("main=" + case["main"])
    if hot:
        labels.add("preempt-in-cache-machinery")
    if case["mutate"]:
        labels.add("kernel-step")
    nontrivial = None
    if hot:
        nontrivial = "sched|" + case["main"] + "|" + ",".join(hot) + "|mut=%s|thr=%d" % (
            case["mutate"], len(case["others"]))
    return Result(sorted(labels), nontrivial)


# names as_dict() must refuse: anything outside psutil's own list of valid
# names ("The valid attr names which can be processed by Process.as_dict()"),
# i.e. also the public Process attributes which are actions or take arguments
BAD_NAMES = ("bogus_attr", "bogus_attr", "terminate", "kill", "suspend", "resume", "send_signal", "wait",
             "is_running", "as_dict", "oneshot", "parent", "parents", "children", "rlimit", "_name", "_init",
             "__class__", "")


def run_case(case):
    ROLLUP[0] = case.get("rollup")
    try:
        if case["mode"] == "seq":
            res = run_seq(case)
            if case.get("rollup"):
                res.labels = list(res.labels) + ["smaps_rollup-" + case["rollup"]]
            return res
        return run_sched(case)
    finally:
        ROLLUP[0] = None


PROP = Property(
    id="C16",
    level="exploration",
    rule=("(a) Hypothesis generates op-lists (<= 16 ops, thorough 32) on one "
          "object over a simulated process whose every source renders "
          "differently per version: enter / nested enter / exit / exception "
          "leaving the block / call of any of 29 getters / process mutation / "
          "as_dict (all, subset, empty, unknown name, non-collection, three "
          "ad_values) / deny a file / zombify / vanish.  Differential oracle: a "
          "plain call on a fresh object at the state the source had at its "
          "first read in the block; stat/status/smaps opened at most once per "
          "block (probes made inside is_running() are marked by a stack walk "
          "and not counted).  (b) schedules: thread 0 runs a oneshot block or "
          "as_dict(), 1-2 threads call plain methods on the same object, an "
          "optional kernel step mutates the process; <= 4 (thorough 8) "
          "segments at source-line granularity of psutil/*.py; every value "
          "must be valid for some version between min(block start, call "
          "start) and call end, no spurious exception.  Non-trivial = (a) a "
          "cached value served after a mutation or an exception leaving a "
          "block, (b) a pre-emption inside memoize_when_activated.wrapper / "
          "oneshot enter/exit; distinct = op-kind signature | pre-emption "
          "site set."),
    strategy=strategy,
    run_case=run_case,
    budgets={"quick": 16000, "thorough": 300000},
    assumptions=[
        "create_time() and exe() are memoised for the life of the object and are not compared",
        "schedules are explored up to the stated segment bound at line granularity; "
        "pre-emption inside a C call is out of reach",
        "threads other than the block owner call plain methods only (Process._lock is replaced by a cooperative lock)",
    ],
    trusted_base=["vlib/simk.py", "vlib/detsched.py (sys.settrace scheduler)", "hypothesis"],
)

if __name__ == "__main__":
    main(PROP, "props.c16_oneshot")
