"""C10 - nowrap=True counters never decrease while their device stays present.

Domain: op-list histories over simulated /proc/net/dev and /proc/diskstats:
set_raw (devices appear / vanish / reappear, each field grows, stays or drops),
call(fn, per-device?, nowrap?), cache_clear(fn), the two functions
interleaved.  Oracle: reference model of the statement (per device and field:
offset = sum of the raw values seen just before each drop).
"""

import os
import threading

from hypothesis import strategies as st

from props import c09_iocounters as c09
from vlib import simk
from vlib.runner import Property
from vlib.runner import Result
from vlib.runner import Violation
from vlib.runner import known_keys
from vlib.runner import main

KNOWN_PERDISK = "C10-perdisk-alternation-forgets-partitions"

NICS = ["lo", "eth0", "wlan0"]
DISKS = ["sda", "sda1", "sdb", "nvme0n1p1"]
WHOLE = {"sda", "sdb"}


def value():
    return st.one_of(st.sampled_from([0, 1, 5, 100, 2**32 - 1, 2**32, 2**64 - 1]),
                     st.integers(0, 1000), st.integers(0, 2**64 - 1))


def dev_change():
    # how one device's counters move: per field mode
    return st.fixed_dictionaries(dict(
        present=st.sampled_from([True, True, True, True, False]),
        mode=st.lists(st.sampled_from(["grow", "grow", "same", "drop", "drop0",
                                       "set"]), min_size=3, max_size=3),
        amount=st.lists(value(), min_size=3, max_size=3),
    ))


def strategy(tier):
    nops = 16 if tier == "quick" else 40
    set_raw = st.tuples(st.just("set"), st.sampled_from(["net", "disk"]),
                        st.lists(dev_change(), min_size=4, max_size=4))
    absent = dict(present=False, mode=["same"] * 3, amount=[0, 0, 0])
    set_none = st.tuples(st.just("set"), st.sampled_from(["net", "disk"]),
                         st.just([absent] * 4))
    call = st.tuples(st.just("call"), st.sampled_from(["net", "disk"]),
                     st.booleans(), st.sampled_from([True, True, True, False]))
    clear = st.tuples(st.just("clear"), st.sampled_from(["net", "disk"]))
    # a change immediately observed by a nowrap=True per-device call
    setcall = st.tuples(st.just("setcall"), st.sampled_from(["net", "disk"]),
                        st.lists(dev_change(), min_size=4, max_size=4))
    # one device's story: different fields go backwards in successive
    # snapshots, the device vanishes (or not), comes back and is read again
    story = st.tuples(st.just("story"), st.sampled_from(["net", "disk"]), st.integers(0, 3),
                      st.lists(st.integers(0, 2), min_size=1, max_size=4), st.booleans(),
                      st.integers(1, 3), st.sampled_from([0, 1, 7, 2**32]))
    return st.fixed_dictionaries(dict(
        ops=st.lists(st.one_of(set_raw, set_raw, set_none, call, call,
                               call, clear, setcall, setcall, setcall, setcall, story),
                     min_size=2, max_size=nops),
    ))


class World:
    """Raw kernel counters: 3 generated fields spread over the record."""

    def __init__(self):
        # device -> list of 3 counters, or absent
        self.raw = {"net": {"lo": [10, 20, 30]},
                    "disk": {"sda": [10, 20, 30], "sda1": [1, 2, 3]}}

    def names(self, fn):
        return NICS if fn == "net" else DISKS

    def apply(self, fn, changes):
        cur = self.raw[fn]
        for name, ch in zip(self.names(fn), changes):
            if not ch["present"]:
                cur.pop(name, None)
                continue
            old = cur.get(name)
            if old is None:
                cur[name] = [a % 2**64 for a in ch["amount"]]
                continue
            new = []
            for o, mode, a in zip(old, ch["mode"], ch["amount"]):
                if mode == "grow":
                    new.append(min(2**64 - 1, o + a))
                elif mode == "same":
                    new.append(o)
                elif mode == "drop":
                    new.append(a % (o + 1) if o else 0)   # somewhere in [0, o]
                elif mode == "drop0":
                    new.append(0)
                else:
                    new.append(a)
            cur[name] = new

    def nic_record(self, name, v):
        # every reported field follows one of the three generated counters
        # (so that "all fields of a device go backwards at once" happens)
        return dict(name=name, style="new", rx=[v[0], v[1], v[2], v[0], 0, 0, 0, 0],
                    tx=[v[1], v[2], v[0], v[1], 0, 0, 0, 0])

    def disk_record(self, name, v):
        vals = [v[0], v[1], v[2], v[0], v[1], v[2], v[0], v[1], 0, v[2], 9] + [0] * 6
        return dict(name=name, layout=20, vals=vals, major=8, minor=0,
                    whole=name in WHOLE)

    def expected_raw(self, fn):
        if fn == "net":
            return {n: c09.expected_nic(self.nic_record(n, v))
                    for n, v in self.raw["net"].items()}
        return {n: c09.expected_disk(self.disk_record(n, v))
                for n, v in self.raw["disk"].items()}

    def install(self, k):
        k.files["/proc/net/dev"] = c09.render_netdev(
            [self.nic_record(n, v) for n, v in self.raw["net"].items()])
        k.files["/proc/diskstats"] = c09.render_diskstats(
            [self.disk_record(n, v) for n, v in self.raw["disk"].items()])


class WrapModel:
    """The statement: per (device, field) offset = sum of last raw values seen
    just before each drop while the device was present in consecutive
    nowrap=True calls."""

    def __init__(self):
        self.prev = None  # device -> tuple at the last nowrap=True call
        self.offset = {}

    def clear(self):
        self.prev = None
        self.offset = {}

    def observe(self, raw, visible=None):
        """`raw`: every device the kernel lists; `visible`: the devices this
        call returns (partitions are not part of perdisk=False results, so
        such a call neither observes nor forgets them)."""
        if visible is None:
            visible = set(raw)
        if self.prev is None:
            self.prev = {d: t for d, t in raw.items() if d in visible}
            self.offset = {}
            return dict(raw)
        for dev in list(self.offset):
            if dev not in raw:
                del self.offset[dev]
        for dev in list(self.prev):
            if dev not in raw:
                del self.prev[dev]
        out = {}
        for dev, tup in raw.items():
            if dev not in visible:
                continue
            old = self.prev.get(dev)
            if old is None:
                self.offset.pop(dev, None)
                out[dev] = tup
            else:
                off = self.offset.setdefault(dev, [0] * len(tup))
                for i, (o, n) in enumerate(zip(old, tup)):
                    if n < o:
                        off[i] += o
                out[dev] = tuple(n + f for n, f in zip(tup, off))
            self.prev[dev] = tup
        return out


def run_case(case):
    import psutil

    if "sched" in case:
        run_sched(*case["sched"])
        return Result(["sched"])
    known = known_keys("C10")
    w = World()
    k = simk.Kernel()
    k.mkdir("/sys/block/sda")
    k.mkdir("/sys/block/sdb")
    w.install(k)
    models = {"net": WrapModel(), "disk": WrapModel()}
    labels = set()
    drops = {}
    last_ret = {}  # (fn, dev, field) -> last value returned with nowrap=True
    excluded = 0
    seen_per_forms = set()
    with simk.installed(k):
        fns = {"net": psutil.net_io_counters, "disk": psutil.disk_io_counters}
        expanded = []
        for op in case["ops"]:
            if op[0] == "setcall":
                expanded.append(["set", op[1], op[2]])
                expanded.append(["call", op[1], True, True])
            elif op[0] == "story":
                _, fn, di, fields, vanish, reads, amt = op
                labels.add("story")

                def step(present=True, drop=None, amount=1):
                    chs = []
                    for j in range(4):
                        if j != di:
                            chs.append(dict(present=j in keep, mode=["same"] * 3, amount=[3, 2, 1]))
                        else:
                            mode = ["grow"] * 3
                            if drop is not None:
                                mode[drop] = "drop0" if amount == 0 else "drop"
                            chs.append(dict(present=present, mode=mode, amount=[amount] * 3))
                    expanded.append(["set", fn, chs])
                    expanded.append(["call", fn, True, True])

                keep = {j for j, nm in enumerate(w.names(fn)) if nm in w.raw[fn]}
                step(amount=5)
                for f in fields:
                    step(drop=f, amount=amt)
                if vanish:
                    step(present=False)
                    step(amount=9)
                for _ in range(reads):
                    step(amount=1)
            else:
                expanded.append(op)
        for op in expanded:
            if op[0] == "set":
                _, fn, changes = op
                before = {d: list(v) for d, v in w.raw[fn].items()}
                w.apply(fn, changes)
                w.install(k)
                for d, v in w.raw[fn].items():
                    if d in before and any(n < o for o, n in zip(before[d], v)):
                        drops[(fn, d)] = drops.get((fn, d), 0) + 1
                    if d not in before:
                        labels.add("device-appears")
                for d in before:
                    if d not in w.raw[fn]:
                        labels.add("device-vanishes")
                continue
            if op[0] == "clear":
                _, fn = op
                fns[fn].cache_clear()
                models[fn].clear()
                for key in [x for x in last_ret if x[0] == fn]:
                    del last_ret[key]
                labels.add("cache_clear")
                continue
            _, fn, per, nowrap = op
            if fn == "disk" and KNOWN_PERDISK in known and not case.get("allow_known"):
                # known finding: alternating perdisk=True/False with nowrap
                # loses the partitions' history; keep one form per history
                if nowrap:
                    if seen_per_forms and per not in seen_per_forms:
                        per = next(iter(seen_per_forms))
                        excluded += 1
                    seen_per_forms.add(per)
            raw = w.expected_raw(fn)
            try:
                if fn == "net":
                    got = psutil.net_io_counters(pernic=per, nowrap=nowrap)
                else:
                    got = psutil.disk_io_counters(perdisk=per, nowrap=nowrap)
            except Exception as e:  # noqa: BLE001
                raise Violation("no-exception", f"{fn}(per={per}, nowrap={nowrap}) raised {e!r}") from None
            if fn == "disk" and not per:
                visible = {d for d in raw if d in WHOLE}
            else:
                visible = set(raw)
            exp = models[fn].observe(raw, visible) if nowrap else raw
            labels.add("nowrap" if nowrap else "raw")
            exp_view = {d: t for d, t in exp.items() if d in visible}
            if per:
                got_cmp = {d: tuple(t) for d, t in got.items()}
                if got_cmp != exp_view:
                    raise Violation(
                        "per-device",
                        f"{fn}(per=True, nowrap={nowrap}) = {got_cmp} expected {exp_view}; raw {raw}")
            else:
                if not exp_view:
                    if got is not None:
                        raise Violation("total-none", f"{fn}: {got!r}")
                else:
                    esum = tuple(sum(c) for c in zip(*exp_view.values()))
                    if got is None or tuple(got) != esum:
                        raise Violation(
                            "total",
                            f"{fn}(per=False, nowrap={nowrap}) = {got!r} expected {esum}; raw {raw}")
            if nowrap:
                # monotonicity while present (redundant with the model, kept
                # as the property's own wording)
                present = set(exp)
                for key in [x for x in last_ret if x[0] == fn and x[1] not in present]:
                    del last_ret[key]
                if per:
                    for d, t in got.items():
                        for i, v in enumerate(t):
                            lk = (fn, d, i)
                            if lk in last_ret and v < last_ret[lk]:
                                raise Violation("monotone", f"{fn} {d}[{i}] went {last_ret[lk]} -> {v}")
                            last_ret[lk] = v
    if any(v >= 2 for v in drops.values()):
        labels.add("multi-drop")
    if drops:
        labels.add("drop")
    fns_wrapped = {fn for (fn, _d) in drops}
    if len(fns_wrapped) == 2:
        labels.add("both-functions-wrapped")
    nontrivial = None
    sig = labels & {"multi-drop", "both-functions-wrapped", "device-vanishes",
                    "device-appears", "cache_clear", "drop"}
    if "drop" in labels and "nowrap" in labels:
        nontrivial = ",".join(sorted(sig)) + "|drops=%d" % min(sum(drops.values()), 6)
    return Result(sorted(labels), nontrivial, {"excluded": excluded})


def run_sched(first, steps, fn="net", clear=False):
    """One schedule: thread `first` runs `steps` source lines of its
    net_io_counters(nowrap=True) call, then the kernel step (all raw counters
    grow), then the other thread runs to completion, then the rest.  Returns
    None or a description of the phantom wrap."""
    import psutil
    from vlib import detsched

    psdir = os.path.dirname(psutil.__file__)
    w = World()
    dev = "lo" if fn == "net" else "sda"
    w.raw[fn] = {dev: [100, 200, 300]}
    k = simk.Kernel()
    k.mkdir("/sys/block/sda")
    w.install(k)
    versions = [dict(w.expected_raw(fn))]
    out = {}

    def api():
        if fn == "net":
            return psutil.net_io_counters(pernic=True, nowrap=True)
        return psutil.disk_io_counters(perdisk=True, nowrap=True)

    def kernel_step():
        w.raw[fn][dev] = [x + 1000 for x in w.raw[fn][dev]]
        w.install(k)
        versions.append(dict(w.expected_raw(fn)))

    def caller(i):
        def run():
            if clear and i == 1:
                # cache_clear() from another thread, at any point of the
                # in-flight call of thread 0
                (psutil.net_io_counters if fn == "net" else psutil.disk_io_counters).cache_clear()
                out[i] = None
            else:
                out[i] = api()
        return run

    with simk.installed(k):
        api()   # establishes the cache
        sched = detsched.Scheduler(psdir)
        C = psutil._common
        old_lock = C._wn.lock
        C._wn.lock = detsched.CoopLock(sched)
        # any other module-level lock would block a parked thread for real:
        # make them cooperative too
        lock_type = type(threading.Lock())
        swapped = []
        for mod in (psutil, C):
            for name, val in list(vars(mod).items()):
                if isinstance(val, lock_type):
                    swapped.append((mod, name, val))
                    setattr(mod, name, detsched.CoopLock(sched))
        try:
            results, errors, sites = sched.run(
                [caller(0), caller(1), kernel_step],
                [(first, steps), (2, 1), (1 - first if first == 0 else 0, 10**6)])
        except detsched.Deadlock as e:
            raise Violation("sched-deadlock", f"schedule ({first}, {steps}): {e}") from None
        finally:
            C._wn.lock = old_lock
            for mod, name, val in swapped:
                setattr(mod, name, val)
        try:
            final = api()
            final = api()
        except Exception as e:  # noqa: BLE001
            raise Violation("sched-exception",
                            f"{fn} schedule ({first}, {steps}, clear={clear}): a call made after the two "
                            f"threads had finished raised {e!r}; pre-emption sites {sites}") from None
    if errors:
        raise Violation("sched-exception", f"{fn} schedule ({first}, {steps}, clear={clear}): {errors!r}; "
                                           f"pre-emption sites {sites}")
    valid = [tuple(v[dev]) for v in versions]
    bad = [i for i in (0, 1) if out[i] is not None and tuple(out[i][dev]) not in valid]
    if tuple(final[dev]) != valid[-1]:
        bad.append("final")
    if bad:
        raise Violation(
            "phantom-wrap",
            f"{fn} schedule ({first}, {steps}): raw counters only grew {valid}; thread results "
            f"{[tuple(out[i][dev]) if out[i] is not None else 'cache_clear()' for i in (0, 1)]}, "
            f"later call {tuple(final[dev])}; "
            f"pre-emption sites {sites}")


def sched_tier(tier, seed, stats):
    """Two threads call net_io_counters(pernic=True, nowrap=True) while the raw
    counters only grow.  No wrap ever happened, so every returned value must
    equal a raw value that existed during the calls and later calls must not
    be inflated.  All (first thread, steps) prefixes up to a bound are
    ENUMERATED, not sampled."""
    bound = 40 if tier == "quick" else 160
    n = 0
    for fn, clear in (("net", False), ("disk", False), ("net", True), ("disk", True)):
      for first in (0, 1):
        for steps in range(1, bound):
            case = {"sched": [first, steps, fn, clear]}
            try:
                run_sched(first, steps, fn, clear)
            except Violation as v:
                stats.fail(case, v)
                stats.notes["schedules_enumerated"] = n
                return
            n += 1
            stats.record(case, Result(["sched", "sched-cache_clear"] if clear else ["sched"],
                                      "sched|%s|%s|%d|%d" % (fn, clear, first, min(steps, 30))), keep_sample=(n == 1))
    stats.notes["schedules_enumerated"] = n


PROP = Property(
    id="C10",
    level="exploration",
    rule=("Hypothesis generates histories of raw-counter snapshot changes "
          "(per device: vanish / appear / each field grow, same, drop, drop to "
          "0, set), public calls (net|disk, per-device or total, nowrap "
          "True|False) and cache_clear() calls over simulated /proc/net/dev "
          "and /proc/diskstats; every returned value is compared with the "
          "reference model of the statement.  Non-trivial = a history with a "
          "counter drop observed by a nowrap=True call; distinct = event "
          "signature (multi-drop, drop after reappear, both functions, "
          "cache_clear) x number of drops."),
    strategy=strategy,
    run_case=run_case,
    budgets={"quick": 20000, "thorough": 150000},
    extra_tiers=[("sched", sched_tier)],
    assumptions=[
        "a device's presence is observed at nowrap=True calls only",
        "sequential histories here; two-thread schedules are explored by the "
        "detsched tier when present",
    ],
    trusted_base=["vlib/simk.py file layer", "props/c09 renderers", "hypothesis"],
)

if __name__ == "__main__":
    main(PROP, "props.c10_nowrap")
