"""C03 - a process vanishing, turning zombie or being denied mid-call yields
only psutil errors.   Level: fault_enumeration.

For a generated process state, every public query method is first run
fault-free to count its OS accesses N; then for every access index k the
process is removed / zombified just before access k, and every access that
pertains to the process is refused once (EACCES/EPERM).  Two-fault sequences
(deny at i, vanish at j>i) are enumerated in the thorough tier and sampled in
the quick tier.
"""

import errno
import re
import resource
import warnings

from hypothesis import strategies as st

from vlib import calib
from vlib import procgen
from vlib import simk
from vlib.runner import Property
from vlib.runner import Result
from vlib.runner import Violation
from vlib.runner import main

PID = 500
PARENT = 400

FORBIDDEN = (OSError, IndexError, ValueError, KeyError, TypeError, AttributeError)


def methods():
    return [
        ("name", lambda p: p.name()),
        ("exe", lambda p: p.exe()),
        ("cmdline", lambda p: p.cmdline()),
        ("status", lambda p: p.status()),
        ("username", lambda p: p.username()),
        ("create_time", lambda p: p.create_time()),
        ("cwd", lambda p: p.cwd()),
        ("nice", lambda p: p.nice()),
        ("uids", lambda p: p.uids()),
        ("gids", lambda p: p.gids()),
        ("terminal", lambda p: p.terminal()),
        ("num_fds", lambda p: p.num_fds()),
        ("io_counters", lambda p: p.io_counters()),
        ("ionice", lambda p: p.ionice()),
        ("rlimit", lambda p: p.rlimit(resource.RLIMIT_NOFILE)),
        ("cpu_affinity", lambda p: p.cpu_affinity()),
        ("cpu_num", lambda p: p.cpu_num()),
        ("environ", lambda p: p.environ()),
        ("num_ctx_switches", lambda p: p.num_ctx_switches()),
        ("num_threads", lambda p: p.num_threads()),
        ("threads", lambda p: p.threads()),
        ("cpu_times", lambda p: p.cpu_times()),
        ("cpu_percent", lambda p: p.cpu_percent()),
        ("memory_info", lambda p: p.memory_info()),
        ("memory_full_info", lambda p: p.memory_full_info()),
        ("memory_percent", lambda p: p.memory_percent()),
        ("memory_percent_pss", lambda p: p.memory_percent("pss")),
        ("memory_maps", lambda p: p.memory_maps()),
        ("memory_maps_ungrouped", lambda p: p.memory_maps(grouped=False)),
        ("open_files", lambda p: p.open_files()),
        ("net_connections", lambda p: p.net_connections()),
        ("net_connections_all", lambda p: p.net_connections("all")),
        ("net_connections_unix", lambda p: p.net_connections("unix")),
        ("ppid", lambda p: p.ppid()),
        ("is_running", lambda p: p.is_running()),
        ("as_dict", lambda p: p.as_dict()),
        ("as_dict_subset", lambda p: p.as_dict(attrs=["name", "uids", "cmdline", "memory_maps", "num_fds"])),
        ("children", lambda p: p.children()),
        ("children_recursive", lambda p: p.children(recursive=True)),
        ("parent", lambda p: p.parent()),
        ("parents", lambda p: p.parents()),
        ("str", str),
    ]


# after a vanish these may return a value instead of raising NoSuchProcess
AFTER_GONE_VALUE_OK = {"create_time", "exe", "is_running", "str"}


def strategy(tier):
    return st.fixed_dictionaries(dict(
        state=procgen.proc_state(),
        oneshot=st.booleans(),
        requery_k=st.lists(st.integers(0, 200), min_size=1, max_size=2),
        # two-fault sequences (first fault at i, second at j > i)
        pairs=st.lists(st.tuples(st.integers(0, 60), st.integers(0, 200),
                                 st.integers(0, 200),
                                 st.sampled_from(["deny+vanish", "zombify+vanish", "zombie+vanish",
                                                  "zombie+vanish", "deny+vanish"])),
                       max_size=60),
        iter_attrs=st.sampled_from([None, ["name"], ["name", "cmdline", "memory_maps"],
                                    ["pid", "uids", "open_files", "num_threads"], []]),
    ))


def shape(v):
    if isinstance(v, tuple) and hasattr(v, "_fields"):
        return ("nt", type(v).__name__, v._fields)
    if isinstance(v, list):
        return ("list", shape(v[0]) if v else None)
    if isinstance(v, dict):
        return ("dict",)
    return (type(v).__name__,)


# methods documented to return None for "nothing"
NONE_OK = {"terminal", "parent", "cwd"}


def shapes_compatible(a, b, mname=None):
    if a == b:
        return True
    if a[0] == "list" and b[0] == "list":
        return a[1] is None or b[1] is None or a[1] == b[1]
    if a == ("NoneType",) or b == ("NoneType",):
        return mname is None or mname in NONE_OK
    if {a[0], b[0]} <= {"int", "float"}:
        return True
    return False


def pertains(entry):
    if entry is None:
        return False
    if entry.get("pid") == PID:
        return True
    path = entry.get("path")
    return isinstance(path, str) and (path == f"/proc/{PID}" or path.startswith(f"/proc/{PID}/"))


def deny_errno(entry):
    return errno.EACCES if entry["op"] in ("open", "read", "listdir", "readlink",
                                           "stat", "lstat", "access") else errno.EPERM


class World:
    def __init__(self, state):
        self.state = state

    def fresh(self):
        k = simk.Kernel(ncpus=4)
        procgen.standard_world(k, self.state, PID, PARENT)
        return k


def classify(exc):
    import psutil

    if exc is None:
        return "value"
    if isinstance(exc, psutil.ZombieProcess):
        return "ZombieProcess"
    if isinstance(exc, psutil.NoSuchProcess):
        return "NoSuchProcess"
    if isinstance(exc, psutil.AccessDenied):
        return "AccessDenied"
    return type(exc).__name__


ALLOWED = {
    "vanish": {"value", "NoSuchProcess"},
    # issue 2418: /proc/<pid> still there, files in it gone, PID gone
    "dying": {"value", "NoSuchProcess"},
    "zombify": {"value", "ZombieProcess"},
    "deny": {"value", "AccessDenied"},
    "deny+vanish": {"value", "AccessDenied", "NoSuchProcess"},
    # a zombie that is reaped (or refused) later in the same call
    "zombify+vanish": {"value", "ZombieProcess", "NoSuchProcess"},
    "zombie+vanish": {"value", "ZombieProcess", "NoSuchProcess"},
    # a child / grandchild of the (live) object goes away while children()
    # walks the table: it is skipped, the object itself is not "gone"
    "relative-vanish": {"value"},
    # one thread (not the leader) of the live process exits: open() of its
    # task/<tid>/ file fails with ENOENT, a read() of the already opened file
    # with ESRCH; the thread is skipped, the process itself is not "gone"
    "thread-exit": {"value"},
}


def run_case(case):
    import psutil

    world = World(case["state"])
    use_oneshot = case["oneshot"]
    meths = methods()
    counts = {}
    nontrivial = set()
    runs = 0
    sample = None

    def call(p, fn):
        try:
            with warnings.catch_warnings():
                warnings.simplefilter("ignore")
                if use_oneshot:
                    with p.oneshot():
                        return fn(p), None
                return fn(p), None
        except BaseException as e:  # noqa: BLE001
            return None, e

    def bump(lab):
        counts[lab] = counts.get(lab, 0) + 1

    def check_outcome(mname, kind, where, val, exc, base_shape, entry):
        cls = classify(exc)
        desc = f"{mname}() with {kind} {where}"
        if cls not in ("value", "NoSuchProcess", "ZombieProcess", "AccessDenied"):
            import traceback
            tb = "".join(traceback.format_exception(type(exc), exc, exc.__traceback__))[-700:]
            raise Violation("leaked-" + cls, f"{desc}: {exc!r}\n{tb}")
        if cls not in ALLOWED[kind]:
            raise Violation("impossible-" + cls,
                            f"{desc}: raised {exc!r}, which this fault cannot explain")
        if exc is not None and getattr(exc, "pid", None) != PID:
            raise Violation("wrong-pid", f"{desc}: {exc!r} carries pid {getattr(exc, 'pid', None)}")
        if exc is None and not shapes_compatible(shape(val), base_shape, mname):
            raise Violation("malformed-value",
                            f"{desc}: returned {val!r} (shape {shape(val)}), fault-free shape {base_shape}")
        return cls

    for mname, fn in meths:
        # ---- fault-free run
        k = world.fresh()
        with simk.installed(k):
            p = psutil.Process(PID)
            n0 = len(k.log)
            v0, e0 = call(p, fn)
            log = k.log[n0:]
        if e0 is not None:
            import traceback
            tb = "".join(traceback.format_exception(type(e0), e0, e0.__traceback__))[-700:]
            raise Violation("fault-free-exception", f"{mname}(): {e0!r}\n{tb}")
        base_shape = shape(v0)
        base_cls = "value"
        N = len(log)
        runs += 1
        target_idx = [i for i, en in enumerate(log) if pertains(en)]
        plans = []
        for kk in range(N):
            plans.append(("vanish", kk, [simk.Fault(kk, "vanish", PID)]))
            plans.append(("zombify", kk, [simk.Fault(kk, "zombify", PID)]))
            plans.append(("dying", kk, [simk.Fault(kk, "dying", PID)]))
        for kk in target_idx:
            plans.append(("deny", kk, [simk.Fault(kk, "deny", PID, deny_errno(log[kk]))]))
        for kk in target_idx:
            tm = re.match(rf"^/proc/{PID}/task/(\d+)/", log[kk].get("path") or "")
            if tm and int(tm.group(1)) != PID and log[kk]["op"] in ("open", "read"):
                plans.append(("thread-exit", kk, [simk.Fault(
                    kk, "esrch" if log[kk]["op"] == "read" else "enoent", PID)]))
        if mname in ("children", "children_recursive"):
            for rel in sorted(q for q in k.procs if q > PID):
                for kk in range(N):
                    plans.append(("relative-vanish", kk, [simk.Fault(kk, "vanish", rel)]))
        requery = {rk % N for rk in case["requery_k"]} if N else set()
        requery.add(0)
        for kind, kk, faults in plans:
            k = world.fresh()
            with simk.installed(k):
                p = psutil.Process(PID)
                k.arm(faults)
                val, exc = call(p, fn)
                k.arm([])
                entry = log[kk]
                where = f"before access {kk}/{N} ({entry['op']} {entry.get('path') or entry.get('pid')})"
                cls = check_outcome(mname, kind, where, val, exc, base_shape, entry)
                runs += 1
                bump(f"{kind}:{cls}")
                if cls != base_cls:
                    suffix = (entry.get("path") or "").replace(f"/proc/{PID}", "").split("/task/")[0]
                    nontrivial.add(f"{mname}|{kind}|{entry['op']}{suffix[:24]}|{cls}")
                    if sample is None:
                        sample = {"method": mname, "fault": kind, "k": kk, "of": N,
                                  "access": f"{entry['op']} {entry.get('path')}", "outcome": cls}
                # ---- once gone, every later query raises NoSuchProcess
                if kind == "vanish" and kk in requery and PID not in k.procs:
                    # every method gets to be the first question asked after
                    # the death (earlier answers may latch "gone" on the object)
                    rot = (kk + sum(case["requery_k"]) + len(mname)) % len(meths)
                    for m2, fn2 in meths[rot:] + meths[:rot]:
                        v2, e2 = call(p, fn2)
                        runs += 1
                        c2 = classify(e2)
                        if c2 == "NoSuchProcess":
                            continue
                        if c2 == "value" and m2 in AFTER_GONE_VALUE_OK:
                            if m2 == "is_running" and v2 is not False:
                                raise Violation("gone-is_running", f"is_running() = {v2!r} after vanish")
                            continue
                        if c2 == "value" and m2 in ("as_dict", "as_dict_subset", "parent", "parents"):
                            raise Violation("gone-" + m2, f"{m2}() returned {v2!r} for a vanished process")
                        raise Violation(
                            "gone-not-NoSuchProcess",
                            f"after vanish during {mname}() {where}: {m2}() gave {c2} {e2!r} {v2!r}")
                    bump("requery-after-vanish")

        # ---- two-fault sequences (deny at i, vanish at j > i)
        for pair in case["pairs"]:
            pi, a, b = pair[0], pair[1], pair[2]
            pkind = pair[3] if len(pair) > 3 else "deny+vanish"
            if meths[pi % len(meths)][0] != mname or N < 1:
                continue
            first, second = pkind.split("+")
            if first == "deny":
                if not target_idx:
                    continue
                i = target_idx[a % len(target_idx)]
            elif first == "zombie":
                i = 0          # the process is a zombie from the start of the call
            else:
                i = a % N
            # the call may make MORE accesses once the first fault changed
            # its path (error handlers probe the stat file): let j range a
            # little beyond the fault-free count
            span = N + 6 - (i + 1)
            if span <= 0:
                continue
            j = i + 1 + (b % span)
            k = world.fresh()
            with simk.installed(k):
                p = psutil.Process(PID)
                f1 = (simk.Fault(i, "deny", PID, deny_errno(log[i])) if first == "deny"
                      else simk.Fault(i, "zombify", PID))
                f2 = (simk.Fault(j, "vanish", PID) if second == "vanish"
                      else simk.Fault(j, "deny", PID, errno.EACCES))
                k.arm([f1, f2])
                val, exc = call(p, fn)
                k.arm([])
                cls = check_outcome(mname, pkind, f"{first} at {i}, {second} at {j} (fault-free accesses: {N})",
                                    val, exc, base_shape, log[min(i, N - 1)])
                runs += 1
                bump(f"pair:{pkind}:{cls}")
                if cls != "value":
                    nontrivial.add(f"{mname}|{pkind}|{log[min(i, N - 1)]['op']}|{cls}")

    # ---- process_iter(attrs): vanish at any access is swallowed
    k = world.fresh()
    attrs = case["iter_attrs"]
    with simk.installed(k):
        n0 = len(k.log)
        try:
            base = [(q.pid, getattr(q, "info", None)) for q in psutil.process_iter(attrs)]
        except BaseException as e:  # noqa: BLE001
            raise Violation("process_iter-fault-free", repr(e)) from None
        N = len(k.log) - n0
    runs += 1
    all_pids = [q for q, _ in base]
    for kk in range(N):
        for kind in ("vanish", "zombify"):
            k = world.fresh()
            with simk.installed(k):
                k.arm([simk.Fault(kk, kind, PID)])
                try:
                    with warnings.catch_warnings():
                        warnings.simplefilter("ignore")
                        got = [(q.pid, getattr(q, "info", None)) for q in psutil.process_iter(attrs)]
                except BaseException as e:  # noqa: BLE001
                    import traceback
                    tb = "".join(traceback.format_exception(type(e), e, e.__traceback__))[-600:]
                    raise Violation("process_iter-leak",
                                    f"process_iter(attrs={attrs}) with {kind} before access {kk}/{N}: {e!r}\n{tb}") from None
                k.arm([])
            runs += 1
            gp = [q for q, _ in got]
            if gp != sorted(gp) or set(gp) - set(all_pids) or set(all_pids) - set(gp) - {PID}:
                raise Violation("process_iter-skips-only-vanished",
                                f"{kind} before access {kk}: yielded {gp}, table {all_pids}")
            if attrs is not None:
                for q, info in got:
                    want = set(attrs) if attrs else None
                    if info is None or (want is not None and set(info) != want):
                        raise Violation("process_iter-info", f"pid {q}: info {info!r}")
            bump(f"process_iter:{kind}:{'skipped' if PID not in gp else 'yielded'}")
            if PID not in gp:
                nontrivial.add(f"process_iter|{kind}|skipped")

    counts["oneshot" if use_oneshot else "plain"] = 1
    return Result(counts, nontrivial or None,
                  {"evaluations": runs, "sample": sample})


def calibrate():
    return calib.zombie_probe()


PROP = Property(
    id="C03",
    level="fault_enumeration",
    rule=("Per generated process state (1-4 threads, 0-8 descriptors of mixed "
          "kinds, 0-5 mappings, optional exe/cwd/tty, children): for each of "
          "42 public query forms the call is run fault-free to count its N OS "
          "accesses, then EXHAUSTIVELY for every k<N: process removed before "
          "access k (also in the psutil issue 2418 form: directory still "
          "there, files gone), process zombified before access k, and every access that "
          "pertains to the process refused once with EACCES/EPERM; after a "
          "vanish (k=0 and generated k) all 42 queries are repeated on the "
          "same object; generated two-fault sequences (deny i, vanish j>i), "
          "(zombify i, vanish j>i) incl. a zombie from the start that is reaped at j, with j also beyond "
          "the fault-free access count (error handlers make extra probes); process_iter"
          "(attrs) with vanish/zombify at every access.  evaluations counts "
          "executed calls.  Non-trivial = a (method, fault kind, faulted "
          "access, outcome class) whose outcome differs from the fault-free "
          "run; distinct = that tuple."),
    strategy=strategy,
    run_case=run_case,
    budgets={"quick": 160, "thorough": 1600},
    calibrate=calibrate,
    assumptions=[
        "fault model of the statement: persistent vanish / zombie, one-shot "
        "denial; denials are injected only at accesses that pertain to the "
        "process itself (its /proc/<pid> paths and PID syscalls)",
        "zombie behaviour of the simulated procfs follows a live zombie on "
        "this kernel (re-probed every run)",
        "after a vanish, create_time() (memoised), a previously successful "
        "exe(), is_running() (False), children() ([]) and str() may return a value",
    ],
    trusted_base=["vlib/simk.py fault plan and procfs error model", "hypothesis"],
)

if __name__ == "__main__":
    main(PROP, "props.c03_faults")
