"""C18 - nice/ionice/cpu_affinity/rlimit: get reads the kernel, set changes
exactly that.

Live tier (generated): a sacrificial child and a bystander child; differential
oracle against an independent path to the kernel (os.getpriority, raw
ioprio_get through ctypes.syscall, os.sched_getaffinity, resource.prlimit).
Simulated tier: the same API over vlib.simk with exact logging of what reaches
the extension, including Cpus_allowed_list shapes.
"""

import ctypes
import os
import resource
import signal
import subprocess
import sys

from hypothesis import strategies as st

from vlib import simk
from vlib.runner import Property
from vlib.runner import Result
from vlib.runner import Violation
from vlib.runner import known_keys
from vlib.runner import main

KNOWN_ELIGIBLE = "C18-cpu_affinity-empty-list-uses-current-mask"

SYS_IOPRIO_GET = 252  # x86_64
IOPRIO_WHO_PROCESS = 1
_libc = ctypes.CDLL(None, use_errno=True)

RLIMITS = ["RLIMIT_NOFILE", "RLIMIT_CORE", "RLIMIT_NPROC", "RLIMIT_FSIZE", "RLIMIT_STACK",
           "RLIMIT_MEMLOCK", "RLIMIT_AS", "RLIMIT_CPU", "RLIMIT_DATA", "RLIMIT_MSGQUEUE",
           "RLIMIT_NICE", "RLIMIT_RTPRIO", "RLIMIT_SIGPENDING", "RLIMIT_LOCKS", "RLIMIT_RSS",
           "RLIMIT_RTTIME"]
INF = resource.RLIM_INFINITY


def _rl_table():
    import psutil

    return {r: getattr(psutil, r) for r in RLIMITS if hasattr(psutil, r)}


RL = {}


def kernel_ioprio(pid):
    v = _libc.syscall(SYS_IOPRIO_GET, IOPRIO_WHO_PROCESS, pid)
    if v == -1:
        raise OSError(ctypes.get_errno(), "ioprio_get")
    return (v >> 13, v & 0x1fff)


def action():
    cpus = st.lists(st.integers(0, 15), min_size=1, max_size=6)
    return st.one_of(
        st.tuples(st.just("nice"), st.integers(-20, 19)),
        # -1 is also getpriority()'s error return value
        st.tuples(st.just("nice"), st.sampled_from([-1, -1, 0, -20, 19, 1])),
        st.tuples(st.just("ionice"), st.sampled_from([0, 1, 2, 3, None]),
                  st.sampled_from([None, 0, 1, 2, 3, 4, 5, 6, 7, 8, -1])),
        st.tuples(st.just("ionice"), st.sampled_from([1, 2]), st.integers(0, 7)),
        st.tuples(st.just("cpu_affinity"), cpus),
        st.tuples(st.just("cpu_affinity"), st.sampled_from([[], [], [0, 0, 1], [9999], [-1], [0, 9999],
                                                            [0, 1], [0, 1, 2, 5, 6], [3],
                                                            # only nonexistent CPUs, even modulo 2**32
                                                            [2**32], [2**32 + 3], [2**31], [2**40 + 1],
                                                            [2**32, 2**32 + 1]])),
        # CPUs that exist but lie in a hole of the simulated cpusets "0-2,5-6" / "1,3"
        st.tuples(st.just("cpu_affinity"), st.sampled_from([[3], [4], [3, 4], [4, 3], [0], [2], [0, 2], [7]])),
        st.tuples(st.just("rlimit"), st.sampled_from(RLIMITS),
                  st.sampled_from([(0, 0), (1, 1), (0, 1), (1, 2), (1024, 4096), (5, INF),
                                   (INF, INF), (10, 10), "cur", (1,), (1, 2, 3), (), [7, 8],
                                   # the largest finite values (distinct from RLIM_INFINITY)
                                   (1024, 2**63 - 1), (2**63 - 1, 2**63 - 1), (2**63 - 2, 2**63 - 1),
                                   (0, 2**63 - 2)])),
    )


def strategy(tier):
    n = 10 if tier == "quick" else 30
    return st.fixed_dictionaries(dict(
        mode=st.sampled_from(["live", "live", "sim"]),
        # ("hotplug", n): CPUs come on/off line between two requests
        # (simulated tier only; skipped by the live tier)
        ops=st.lists(st.one_of(action(), action(), action(), action(),
                               st.tuples(st.just("cpu_affinity"), st.just([])),
                               st.tuples(st.just("hotplug"), st.sampled_from([1, 2, 4, 8, 16, 64, 128]))),
                     min_size=1, max_size=n),
        sim_ncpus=st.sampled_from([8, 8, 1, 2, 4, 16, 64]),
        # simulated tier: the sequence is preceded by a cpu_affinity([]) made
        # while only this many CPUs were online (anything psutil remembered
        # from that call is stale afterwards)
        sim_warmup=st.sampled_from([None, None, 1, 2, 4]),
        # simulated tier: the kernel refuses these requests on the target with
        # EPERM (another user's process): AccessDenied, and nothing changes
        sim_denied=st.sets(st.sampled_from(["setpriority", "ioprio_set", "sched_setaffinity", "prlimit"]),
                           max_size=2).map(sorted),
        sim_allowed=st.sampled_from(["0-3", "0", "0-2,5-6", "1,3", None, None, None, "0-1", "2-3",
                                     "0-100", "60-70"]),
        # run the whole sequence inside `with p.oneshot():` (set, then get, in one block)
        oneshot=st.booleans(),
    ))


def spawn_sleeper():
    """A child that has finished starting up (so that a tiny resource limit set
    later cannot kill it in the middle of interpreter initialisation)."""
    p = subprocess.Popen([sys.executable, "-S", "-c",
                          "import sys, time; sys.stdout.write('r'); sys.stdout.flush(); time.sleep(600)"],
                         stdout=subprocess.PIPE, stderr=subprocess.DEVNULL)
    p.stdout.read(1)
    return p


def snapshot(pid):
    return dict(
        nice=os.getpriority(os.PRIO_PROCESS, pid),
        ioprio=kernel_ioprio(pid),
        aff=sorted(os.sched_getaffinity(pid)),
        rl={r: resource.prlimit(pid, RL[r]) for r in RLIMITS},
    )


def all_ones_mask(pid_template):
    """The mask the kernel grants for an all-ones sched_setaffinity request."""
    c = spawn_sleeper()
    try:
        os.sched_setaffinity(c.pid, range(1024))
        return sorted(os.sched_getaffinity(c.pid))
    finally:
        c.kill()
        c.wait()


def run_live(case):
    """See _run_live; a violation observed while one of the children has died
    (a resource limit killed it) is inconclusive, not a violation."""
    state = {}
    try:
        return _run_live(case, state)
    except Violation:
        dead = [c for c in state.get("children", []) if c.poll() is not None]
        if dead or state.get("died"):
            return Result(["live-child-died-inconclusive"])
        raise
    finally:
        for c in state.get("children", []):
            if c.poll() is None:
                c.kill()
            c.wait()
            if c.stdout:
                c.stdout.close()


def _run_live(case, state):
    import psutil

    known = known_keys("C18")
    strict = bool(case.get("allow_known"))
    target = spawn_sleeper()
    bystander = spawn_sleeper()
    state["children"] = [target, bystander]
    labels = set()
    nontrivial = set()
    excluded = 0
    import contextlib

    p = psutil.Process(target.pid)
    block = p.oneshot() if case.get("oneshot") else contextlib.nullcontext()
    with block:
        if case.get("oneshot"):
            p.name()   # primes the per-block caches
            labels.add("inside-oneshot")
        by0 = snapshot(bystander.pid)
        me0 = snapshot(os.getpid())
        ncpu = os.cpu_count()
        eligible = all_ones_mask(target.pid)
        restricted = False
        for op in case["ops"]:
            kind = op[0]
            if kind == "hotplug":
                continue
            before = snapshot(target.pid)
            desc = f"{kind}{tuple(op[1:])}"
            # ---- get == kernel (whatever an unrelated, failed system call
            # left in errno beforehand)
            try:
                os.stat("/nonexistent-psv-c18")
            except OSError:
                pass
            try:
                if p.nice() != before["nice"]:
                    raise Violation("get-nice", f"{p.nice()} kernel {before['nice']}")
                io = p.ionice()
                if (int(io.ioclass), io.value) != before["ioprio"]:
                    raise Violation("get-ionice", f"{io} kernel {before['ioprio']}")
                if p.cpu_affinity() != before["aff"]:
                    raise Violation("get-affinity", f"{p.cpu_affinity()} kernel {before['aff']}")
            except Violation:
                raise
            except Exception as e:  # noqa: BLE001
                raise Violation("get-raises", f"{e!r} (kernel state {before})") from None
            exc = None
            try:
                if kind == "nice":
                    p.nice(op[1])
                    valid = True
                    want = ("nice", op[1])
                elif kind == "ionice":
                    cls, lvl = op[1], op[2]
                    if cls is None and lvl is None:
                        continue
                    valid = (cls is not None and (lvl is None or 0 <= lvl <= 7)
                             and not (lvl and cls in (0, 3)))
                    p.ionice(cls, lvl)
                    want = ("ioprio", (cls, lvl or 0))
                elif kind == "cpu_affinity":
                    cpus = list(op[1])
                    valid = all(0 <= c < ncpu for c in cpus) and (not cpus or bool(set(cpus) & set(eligible)))
                    mixed = (not valid) and any(c in eligible for c in cpus) and all(c >= 0 for c in cpus)
                    if not cpus and restricted and KNOWN_ELIGIBLE in known and not strict:
                        excluded += 1
                        continue
                    p.cpu_affinity(cpus)
                    want = ("aff", sorted(set(cpus)) if cpus else eligible)
                elif kind == "rlimit":
                    if op[1] not in RL:
                        continue
                    res = RL[op[1]]
                    lim = op[2]
                    if op[1] in ("RLIMIT_CPU", "RLIMIT_DATA", "RLIMIT_AS", "RLIMIT_STACK",
                                 "RLIMIT_RTTIME", "RLIMIT_RSS") and isinstance(lim, (tuple, list)) \
                            and len(lim) == 2 and tuple(lim) != (INF, INF):
                        # small values of these would kill the sacrificial child
                        lim = (lim[0] if lim[0] >= 2**40 else 2**40 + lim[0],
                               lim[1] if (lim[1] == INF or lim[1] >= 2**41) else 2**41 + lim[1])
                    if lim == "cur":
                        lim = before["rl"][op[1]]
                    got = p.rlimit(res)
                    if tuple(got) != tuple(before["rl"][op[1]]):
                        raise Violation("get-rlimit", f"{op[1]}: {got} kernel {before['rl'][op[1]]}")
                    valid = isinstance(lim, (tuple, list)) and len(lim) == 2
                    if valid:
                        soft, hard = lim
                        s_ok = soft == INF or hard == INF or soft <= hard
                        if hard == INF and soft != INF:
                            s_ok = True
                        if soft == INF and hard != INF:
                            s_ok = False
                        if not s_ok:
                            continue  # soft > hard: the kernel's own EINVAL domain, not generated
                        if op[1] == "RLIMIT_NOFILE" and (hard == INF or (hard != INF and hard > 2**20)):
                            continue  # above fs.nr_open: kernel EPERM
                    p.rlimit(res, lim)
                    want = ("rl", op[1], tuple(lim))
            except Violation:
                raise
            except BaseException as e:  # noqa: BLE001
                exc = e
            if target.poll() is not None or bystander.poll() is not None:
                state["died"] = True
                return Result(["live-child-died-inconclusive"])
            after = snapshot(target.pid)
            if kind == "cpu_affinity" and not valid and mixed:
                # some CPUs exist, some do not: the kernel itself accepts the
                # request and keeps the existing ones; a ValueError (nothing
                # changed) is accepted as well
                if exc is None:
                    if after["aff"] != sorted(set(cpus) & set(eligible)):
                        raise Violation("mixed-affinity", f"{desc}: {after['aff']}")
                    restricted = after["aff"] != eligible
                elif not isinstance(exc, ValueError) or after != before:
                    raise Violation("mixed-affinity", f"{desc}: {exc!r}")
                labels.add("mixed-cpu-list")
                continue
            if kind == "rlimit" and valid and isinstance(exc, psutil.AccessDenied):
                # raising a hard limit needs CAP_SYS_RESOURCE: the kernel's
                # refusal must leave everything unchanged
                if after != before:
                    raise Violation("denied-but-changed", desc)
                labels.add("rlimit-denied-by-kernel")
                continue
            if not valid:
                if not isinstance(exc, ValueError):
                    raise Violation("invalid-not-ValueError", f"{desc}: {exc!r}")
                if after != before:
                    raise Violation("invalid-changed-something", f"{desc}: {before} -> {after}")
                labels.add("invalid-" + kind)
                nontrivial.add(f"live|invalid|{kind}|{str(op[1:])[:30]}")
                continue
            if exc is not None:
                raise Violation("valid-set-failed", f"{desc}: {exc!r}")
            exp = dict(before)
            if want[0] == "nice":
                exp["nice"] = want[1]
            elif want[0] == "ioprio":
                exp["ioprio"] = want[1]
                if want[1][0] == 0:
                    # class NONE: the kernel reports what it reports; psutil must agree with it
                    exp["ioprio"] = after["ioprio"]
            elif want[0] == "aff":
                exp["aff"] = want[1]
            else:
                exp["rl"] = dict(before["rl"])
                exp["rl"][want[1]] = want[2]
            if after != exp:
                diff = {k_: (exp[k_], after[k_]) for k_ in exp if exp[k_] != after[k_]}
                raise Violation("set-exactly-that", f"{desc}: kernel state differs from the request: "
                                f"(expected, actual) {diff}")
            # psutil's own getter agrees too
            if kind == "nice" and p.nice() != op[1]:
                raise Violation("get-after-set", f"{desc}: nice() = {p.nice()}")
            if kind == "ionice":
                io = p.ionice()
                if (int(io.ioclass), io.value) != after["ioprio"]:
                    raise Violation("get-after-set", f"{desc}: ionice() = {io}")
            if kind == "cpu_affinity":
                if p.cpu_affinity() != after["aff"]:
                    raise Violation("get-after-set", f"{desc}: cpu_affinity() = {p.cpu_affinity()}")
                restricted = after["aff"] != eligible
                if not op[1]:
                    labels.add("affinity-reset-[]")
            if kind == "rlimit" and tuple(p.rlimit(RL[op[1]])) != tuple(want[2]):
                raise Violation("get-after-set", f"{desc}: rlimit() = {p.rlimit(RL[op[1]])}")
            if after != before:
                labels.add("changed-" + kind)
                nontrivial.add(f"live|set|{kind}|{str(op[1:])[:30]}")
            if snapshot(bystander.pid) != by0:
                raise Violation("bystander-changed", f"{desc}: {by0} -> {snapshot(bystander.pid)}")
        if snapshot(os.getpid()) != me0:
            raise Violation("harness-changed", f"{me0} -> {snapshot(os.getpid())}")
    return Result(sorted(labels) or ["live"], nontrivial or None, {"excluded": excluded})


def run_sim(case):
    import psutil

    known = known_keys("C18")
    strict = bool(case.get("allow_known"))
    ncpus = case.get("sim_ncpus", 8)
    k = simk.Kernel(ncpus=ncpus)
    k.add_default_sysfiles()
    k.spawn(1, comm=b"init", ppid=0, starttime=1)
    tgt = k.spawn(50, comm=b"t", starttime=9)
    other = k.spawn(51, comm=b"o", starttime=9)
    allowed = case["sim_allowed"]
    cpuset = None
    if allowed is not None:
        cpuset = set()
        for part in allowed.split(","):
            a, _, b = part.partition("-")
            cpuset |= set(range(int(a), int(b or a) + 1))
        if not any(c < ncpus for c in cpuset):
            cpuset = None   # a cpuset without an online CPU cannot exist

    def eligible():
        return set(range(ncpus)) if cpuset is None else {c for c in cpuset if c < ncpus} \
            or set(range(ncpus))
    elig = eligible()
    # the kernel publishes the *current* mask in Cpus_allowed_list; the CPUs
    # the task may ever use (cpuset) are `elig`
    tgt.affinity = set(elig)
    tgt.cpuset = set(elig)
    denied = set(case.get("sim_denied") or ())
    tgt.unreadable |= denied
    SYSCALL = {"nice": "setpriority", "ionice": "ioprio_set", "cpu_affinity": "sched_setaffinity",
               "rlimit": "prlimit"}
    labels = set()
    nontrivial = set()
    excluded = 0
    ops = list(case["ops"])
    if case.get("sim_warmup"):
        ops = [("hotplug", case["sim_warmup"]), ("cpu_affinity", []), ("hotplug", ncpus)] + ops
        labels.add("sim-warmup-with-fewer-cpus")
    with simk.installed(k):
        p = psutil.Process(50)
        for op in ops:
            kind = op[0]
            if kind == "hotplug":
                ncpus = op[1]
                k.ncpus = ncpus
                elig = eligible()
                tgt.cpuset = set(elig)
                # the kernel shrinks a mask that lost CPUs; an emptied mask is
                # reset to the cpuset
                tgt.affinity = (tgt.affinity & elig) or set(elig)
                if other.affinity is not None:
                    other.affinity = (other.affinity & set(range(ncpus))) or None
                labels.add("sim-hotplug")
                continue
            n0 = len(k.setcalls)
            o_before = (other.nice, other.ioprio, other.affinity, dict(other.rlimits))
            exc = None
            try:
                if kind == "nice":
                    p.nice(op[1])
                    want = ("setpriority", 50, op[1])
                    valid = True
                elif kind == "ionice":
                    cls, lvl = op[1], op[2]
                    if cls is None and lvl is None:
                        continue
                    valid = (cls is not None and (lvl is None or 0 <= lvl <= 7)
                             and not (lvl and cls in (0, 3)))
                    p.ionice(cls, lvl)
                    want = ("ioprio_set", 50, cls, lvl or 0)
                elif kind == "cpu_affinity":
                    cpus = list(op[1])
                    if cpus and not (all(0 <= c < ncpus for c in cpus) and set(cpus) & elig):
                        if any(c in elig for c in cpus) and all(c >= 0 for c in cpus):
                            continue  # mixed list: see the live tier
                        valid = False
                    else:
                        valid = True
                    if not cpus and KNOWN_ELIGIBLE in known and not strict and (
                            tgt.affinity != elig or "," in (allowed or "")):
                        excluded += 1
                        continue
                    p.cpu_affinity(cpus)
                    want = ("affinity-result", set(cpus) & elig if cpus else set(elig))
                else:
                    lim = op[2]
                    if lim == "cur":
                        lim = (5, 6)
                    valid = isinstance(lim, (tuple, list)) and len(lim) == 2
                    if op[1] not in RL:
                        continue
                    p.rlimit(RL[op[1]], lim)
                    want = ("prlimit", 50, RL[op[1]], tuple(lim))
            except BaseException as e:  # noqa: BLE001
                exc = e
            new = k.setcalls[n0:]
            desc = f"sim {kind}{tuple(op[1:])} (Cpus_allowed_list {allowed!r})"
            if (other.nice, other.ioprio, other.affinity, dict(other.rlimits)) != o_before:
                raise Violation("sim-bystander", desc)
            if SYSCALL.get(kind) in denied:
                # refused by the kernel: AccessDenied (an invalid request may be
                # rejected with ValueError before it is made), nothing delivered
                ok_exc = isinstance(exc, psutil.AccessDenied) or (not valid and isinstance(exc, ValueError))
                if not ok_exc or new:
                    raise Violation("sim-denied", f"{desc} refused with EPERM: {exc!r}, delivered {new}")
                if getattr(exc, "pid", 50) != 50:
                    raise Violation("sim-denied", f"{desc}: {exc!r} carries another pid")
                labels.add("sim-denied-by-kernel")
                continue
            if not valid:
                if not isinstance(exc, ValueError) or new:
                    raise Violation("sim-invalid", f"{desc}: {exc!r} delivered {new}")
                labels.add("sim-invalid")
                continue
            if exc is not None:
                raise Violation("sim-valid-failed", f"{desc}: {exc!r}")
            if len(new) != 1:
                raise Violation("sim-one-delivery", f"{desc}: {new}")
            d = new[0][:-1]
            if want[0] == "affinity-result":
                # what matters is the mask the kernel ends up with
                ok = (d[0] == "sched_setaffinity" and d[1] == 50 and tgt.affinity == want[1]
                      and len(set(d[2])) == len(d[2]))
                d = d + ("resulting mask", sorted(tgt.affinity))
            elif want[0] == "prlimit":
                ok = d[0] == "prlimit" and d[1] == 50 and d[2] == want[2] and tuple(d[3]) == want[3]
            else:
                ok = tuple(d) == want
            if not ok:
                raise Violation("sim-exact-value", f"{desc}: reached the extension as {d}, expected {want}")
            labels.add("sim-" + kind)
            nontrivial.add(f"sim|{kind}|{str(op[1:])[:24]}|{allowed}")
    return Result(sorted(labels) or ["sim"], nontrivial or None, {"excluded": excluded})


def run_case(case):
    if not RL:
        RL.update(_rl_table())
    if case["mode"] == "live":
        return run_live(case)
    return run_sim(case)


PROP = Property(
    id="C18",
    level="exploration",
    rule=("Hypothesis generates sequences of setter requests: every nice "
          "-20..19, I/O class x level incl. the invalid ring (level -1 / 8, "
          "level with IDLE/NONE, level without class), CPU lists (subsets of "
          "0..15, duplicates, only-nonexistent, negative, mixed, []), every "
          "RLIMIT_* with (soft, hard) pairs incl. RLIM_INFINITY and non-pairs. "
          "Live mode: applied through psutil to a sacrificial child; before "
          "and after each request the kernel is read through an independent "
          "path (os.getpriority, raw ioprio_get syscall, os.sched_getaffinity, "
          "resource.prlimit) for the child, a bystander child and the harness. "
          "Sim mode: the same requests over the simulated kernel with 7 "
          "Cpus_allowed_list shapes, comparing what reaches the extension.  "
          "Non-trivial = a set that changed the kernel value or an invalid "
          "request; distinct = (mode, API, value)."),
    strategy=strategy,
    run_case=run_case,
    budgets={"quick": 3200, "thorough": 60000},
    assumptions=[
        "the sandbox runs as root (negative nice, RT I/O class allowed)",
        "soft > hard and RLIMIT_NOFILE above fs.nr_open are the kernel's own "
        "error domain and are not generated",
        "for I/O class NONE psutil is compared with the kernel only",
    ],
    trusted_base=["os / resource / ctypes syscalls as the independent path", "vlib/simk.py", "hypothesis"],
)

if __name__ == "__main__":
    main(PROP, "props.c18_setters")
