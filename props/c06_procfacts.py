"""C06 - per-process kernel facts are exact whatever the name contains.

Domain: generated /proc/<pid>/{stat,status,task/*/stat} records (model ->
kernel text by vlib.simk renderers).  Oracle: the model values (round trip).
"""

import math
from fractions import Fraction

from hypothesis import strategies as st

from vlib import gen
from vlib import simk
from vlib.runner import Property
from vlib.runner import Result
from vlib.runner import Violation
from vlib.runner import main

CLK = simk.CLK_TCK

LABELS = [b"Uid:", b"Gid:", b"Threads:", b"Tgid:", b"PPid:", b"ctxt_switches:",
          b"Pss:"]


def thread_st():
    return st.fixed_dictionaries(dict(
        comm=gen.comm(),
        utime=gen.counter(),
        stime=gen.counter(),
        state=st.sampled_from(gen.STATE_LETTERS),
    ))


def strategy(tier):
    nthreads = 6 if tier == "quick" else 12
    return st.fixed_dictionaries(dict(
        pid=st.sampled_from([1, 2, 7, 300, 4242, 32768, 4194304, 2**22 - 1]),
        comm=gen.comm(),
        state=st.sampled_from(gen.STATE_LETTERS),
        ppid=st.one_of(st.sampled_from([0, 1, 2]), st.integers(0, 2**22)),
        tty_pick=st.integers(0, 9),
        utime=gen.counter(), stime=gen.counter(),
        cutime=gen.counter(2**63 - 1), cstime=gen.counter(2**63 - 1),
        starttime=gen.counter(),
        processor=st.one_of(st.integers(0, 4095), st.sampled_from([0, 1, 2**31 - 1])),
        blkio=gen.counter(),
        # 52 = current kernels; 44/47/41: older kernels (fewer trailing fields)
        nfields=st.sampled_from([52, 52, 52, 47, 44, 42, 41]),
        uids=st.lists(gen.counter(2**32 - 1), min_size=4, max_size=4),
        gids=st.lists(gen.counter(2**32 - 1), min_size=4, max_size=4),
        vctx=gen.counter(), nvctx=gen.counter(),
        extra_threads=st.lists(thread_st(), min_size=0, max_size=nthreads - 1),
        leader_pos=st.integers(0, 11),
        # /proc/PID/stat carries the thread-group totals, /proc/PID/task/PID/stat
        # the leader's own ticks: None = equal (single-threaded look), else the
        # leader's own figures
        leader_own=st.one_of(st.none(), st.tuples(gen.counter(), gen.counter())),
        btime=st.one_of(st.sampled_from([0, 1, 1700000000, 2**31 - 1, 2**32]),
                        st.integers(0, 2**33)),
        ttys=st.lists(
            st.tuples(st.sampled_from(["/dev/tty", "/dev/tty0", "/dev/tty1",
                                       "/dev/ttyS0", "/dev/pts/0",
                                       "/dev/pts/1", "/dev/pts/300"]),
                      st.sampled_from([0x8800, 0x8801, 0x400, 0x401, 0x500,
                                       0x440, 0x10882c, 34816 + 7, 1025])),
            min_size=0, max_size=5,
            unique_by=(lambda t: t[0], lambda t: t[1])),
        oneshot=st.booleans(),
        # the oneshot() block is left by an exception (the caller's own)
        oneshot_exc=st.booleans(),
    ))


def features(case):
    f = set()
    names = [case["comm"]] + [t["comm"] for t in case["extra_threads"]]
    for i, c in enumerate(names):
        pre = "" if i == 0 else "thr-"
        if b")" in c:
            f.add(pre + "rpar")
        if b"(" in c:
            f.add(pre + "lpar")
        if b" " in c:
            f.add(pre + "space")
        if b"\n" in c:
            f.add(pre + "newline")
        if any(lab in c for lab in LABELS):
            f.add(pre + "label")
        try:
            c.decode("utf-8")
        except UnicodeDecodeError:
            f.add(pre + "nonutf8")
        if len(c) == 15:
            f.add(pre + "len15")
        if len(c) == 0:
            f.add(pre + "empty")
    nums = [case[k] for k in ("utime", "stime", "cutime", "cstime",
                              "starttime", "blkio", "vctx", "nvctx")]
    nums += case["uids"] + case["gids"]
    for t in case["extra_threads"]:
        nums += [t["utime"], t["stime"]]
    if any(n >= 2**53 for n in nums):
        f.add("big53")
    if case["nfields"] < 52:
        f.add("oldrec%d" % case["nfields"])
    return f


def close(a, b, rel=4e-16):
    """float a equals exact rational b up to float rounding of the two
    operations psutil performs (int->float, divide / add)."""
    if b == 0:
        return a == 0
    return abs(Fraction(a) - b) <= abs(b) * Fraction(rel)


def build(case):
    k = simk.Kernel(ncpus=4, btime=case["btime"])
    pid = case["pid"]
    threads = []
    for i, t in enumerate(case["extra_threads"]):
        threads.append(simk.Thread(pid + 1 + i * 3, t["comm"], t["utime"],
                                   t["stime"], t["state"]))
    lu, ls = case.get("leader_own") or (case["utime"], case["stime"])
    leader = simk.Thread(pid, case["comm"], lu, ls, case["state"])
    pos = case["leader_pos"] % (len(threads) + 1)
    threads.insert(pos, leader)
    ttys = [tuple(t) for t in case["ttys"]]
    tty_nr = 0
    if ttys and case["tty_pick"] < 8:
        tty_nr = ttys[case["tty_pick"] % len(ttys)][1]
    elif case["tty_pick"] == 9:
        tty_nr = 0x8805  # a tty number with no device node
    p = k.spawn(
        pid, comm=case["comm"], state=case["state"], ppid=case["ppid"],
        tty_nr=tty_nr, utime=case["utime"], stime=case["stime"],
        cutime=case["cutime"], cstime=case["cstime"],
        starttime=case["starttime"], processor=case["processor"],
        blkio=case["blkio"] if case["nfields"] >= 42 else None,
        stat_nfields=case["nfields"], uids=tuple(case["uids"]),
        gids=tuple(case["gids"]), vctx=case["vctx"], nvctx=case["nvctx"],
        threads=threads, cmdline=b"",
    )
    k.mkdir("/dev/pts")
    for path, rdev in ttys:
        k.set_file(path, simk.Dev(rdev))
    k.set_file("/proc/stat", b"cpu  1 2 3 4 5 6 7 8 9 10\ncpu0 1 2 3 4 5 6 7 8 9 10\n"
               b"btime %d\n" % case["btime"])
    return k, p, tty_nr, dict((r, pth) for pth, r in ttys)


def run_case(case):
    import psutil
    from psutil import _common as C

    k, p, tty_nr, ttymap = build(case)
    # the documented STATUS_* constants (docs/index.rst "Process status
    # constants"), restated independently of psutil's own letter map
    exp_status = {
        b"R": "running", b"S": "sleeping", b"D": "disk-sleep",
        b"T": "stopped", b"t": "tracing-stop", b"Z": "zombie", b"X": "dead",
        b"x": "dead", b"K": "wake-kill", b"W": "waking", b"I": "idle",
        b"P": "parked",
    }
    got = {}
    with simk.installed(k):
        try:
            proc = psutil.Process(case["pid"])
        except Exception as e:  # noqa: BLE001
            raise Violation("constructor", f"Process({case['pid']}) raised {e!r}")
        methods = ["name", "ppid", "status", "cpu_times", "create_time",
                   "cpu_num", "terminal", "num_threads", "num_ctx_switches",
                   "uids", "gids", "threads"]

        def call_all():
            for m in methods:
                try:
                    got[m] = getattr(proc, m)()
                except Exception as e:  # noqa: BLE001
                    raise Violation(m, f"{m}() raised {e!r}") from None

        if case["oneshot"] and case.get("oneshot_exc"):
            try:
                with proc.oneshot():
                    call_all()
                    raise KeyError("the caller's own error inside the block")
            except KeyError:
                pass
        elif case["oneshot"]:
            with proc.oneshot():
                call_all()
        else:
            call_all()
        # ---- the same object asked again after the process changed: it was
        # re-parented, changed credentials, burned CPU, got a new name
        got2 = {}
        if case.get("second_read", True):
            p.ppid = (case["ppid"] + 1) % (2**22)
            p.uids = tuple((u + 1) % 2**32 for u in p.uids)
            p.gids = tuple((g_ + 7) % 2**32 for g_ in p.gids)
            p.utime = case["utime"] + 5
            p.vctx = case["vctx"] + 3
            p.processor = (case["processor"] + 1) % 4096
            p.comm = b"renamed"
            for t_ in p.thread_list():
                if t_.tid == case["pid"]:
                    t_.comm = b"renamed"
            for m in ("ppid", "uids", "gids", "cpu_times", "num_ctx_switches", "cpu_num", "name"):
                try:
                    got2[m] = getattr(proc, m)()
                except Exception as e:  # noqa: BLE001
                    raise Violation(m, f"second {m}() raised {e!r}") from None

    def chk(m, ok, exp):
        if not ok:
            raise Violation(m, f"{m}() = {got[m]!r}, kernel says {exp!r}")

    exp_name = case["comm"].decode(C.ENCODING, C.ENCODING_ERRS)
    chk("name", got["name"] == exp_name, exp_name)
    chk("ppid", got["ppid"] == case["ppid"], case["ppid"])
    chk("status", got["status"] == exp_status[case["state"]],
        exp_status[case["state"]])
    ct = got["cpu_times"]
    iow = case["blkio"] if case["nfields"] >= 42 else 0
    exp_ct = (case["utime"], case["stime"], case["cutime"], case["cstime"], iow)
    chk("cpu_times",
        tuple(ct._fields) == ("user", "system", "children_user",
                              "children_system", "iowait")
        and all(close(a, Fraction(b, CLK)) for a, b in zip(ct, exp_ct)),
        [f"{b}/{CLK}" for b in exp_ct])
    exp_create = Fraction(case["starttime"], CLK) + case["btime"]
    chk("create_time", close(got["create_time"], exp_create, 1e-15),
        f"{case['starttime']}/{CLK}+{case['btime']}")
    chk("cpu_num", got["cpu_num"] == case["processor"], case["processor"])
    chk("terminal", got["terminal"] == ttymap.get(tty_nr), ttymap.get(tty_nr))
    nthr = len(case["extra_threads"]) + 1
    chk("num_threads", got["num_threads"] == nthr, nthr)
    cs = got["num_ctx_switches"]
    chk("num_ctx_switches",
        (cs.voluntary, cs.involuntary) == (case["vctx"], case["nvctx"]),
        (case["vctx"], case["nvctx"]))
    u = got["uids"]
    chk("uids", (u.real, u.effective, u.saved) == tuple(case["uids"][:3]),
        case["uids"][:3])
    g = got["gids"]
    chk("gids", (g.real, g.effective, g.saved) == tuple(case["gids"][:3]),
        case["gids"][:3])
    exp_thr = sorted((t.tid, t.utime, t.stime) for t in p.thread_list())
    got_thr = sorted(got["threads"], key=lambda t: t.id)
    ok = len(exp_thr) == len(got_thr) and all(
        g_.id == e[0] and close(g_.user_time, Fraction(e[1], CLK))
        and close(g_.system_time, Fraction(e[2], CLK))
        for g_, e in zip(got_thr, exp_thr))
    chk("threads", ok, [(e[0], f"{e[1]}/{CLK}", f"{e[2]}/{CLK}") for e in exp_thr])

    if got2:
        def chk2(m, ok, exp):
            if not ok:
                raise Violation(m, f"{m}() asked again on the same object after the process changed = "
                                   f"{got2[m]!r}, kernel now says {exp!r} (first answer {got[m]!r})")
        chk2("ppid", got2["ppid"] == (case["ppid"] + 1) % (2**22), (case["ppid"] + 1) % (2**22))
        u2 = tuple((u + 1) % 2**32 for u in case["uids"])[:3]
        chk2("uids", tuple(got2["uids"]) == u2, u2)
        g2 = tuple((g_ + 7) % 2**32 for g_ in case["gids"])[:3]
        chk2("gids", tuple(got2["gids"]) == g2, g2)
        chk2("cpu_times", close(got2["cpu_times"].user, Fraction(case["utime"] + 5, CLK)),
             f"{case['utime'] + 5}/{CLK}")
        chk2("num_ctx_switches", got2["num_ctx_switches"].voluntary == case["vctx"] + 3, case["vctx"] + 3)
        chk2("cpu_num", got2["cpu_num"] == (case["processor"] + 1) % 4096, (case["processor"] + 1) % 4096)
        chk2("name", got2["name"] == "renamed", "renamed")
    f = features(case)
    if case["oneshot"] and case.get("oneshot_exc"):
        f = set(f) | {"oneshot-left-by-exception"}
    labels = sorted(f) + ["oneshot" if case["oneshot"] else "plain",
                          "threads=%d" % min(nthr, 4),
                          "leader-own-ticks" if case.get("leader_own") else "leader=process",
                          "tty" if ttymap.get(tty_nr) else "notty"]
    nontrivial = None
    if f - {"oldrec52"}:
        nontrivial = ",".join(sorted(f)) + "|thr%d" % min(nthr, 3)
    return Result(labels, nontrivial)


def calibrate():
    from vlib import calib

    return calib.stat_status_roundtrip()


LIVE_NAMES = [b"a) R 1 (b", b"x\ny\\z", b"Uid:\t7\t8\t9", b")", b"((", b"Threads:\t99", b"\xff\xfe ok",
              b"123456789012345", b" lead", b"trail ", b"a b c", b") S 1 2 3 4 5 6", b"ctxt_switches:\t5"]

_CHILD_CODE = r'''
import ctypes, os, sys, threading, time
libc = ctypes.CDLL(None)
names = [bytes.fromhex(x) for x in sys.argv[1].split(",")]
libc.prctl(15, ctypes.c_char_p(names[0]), 0, 0, 0)
ev = threading.Event()
def worker(nm):
    libc.prctl(15, ctypes.c_char_p(nm), 0, 0, 0)
    x = 0
    for i in range(200000): x += i
    ev.wait()
ths = [threading.Thread(target=worker, args=(nm,)) for nm in names[1:]]
for t in ths: t.start()
sys.stdout.write("ready\n"); sys.stdout.flush()
sys.stdin.readline()
ev.set()
'''


def live_tier(tier, seed, stats):
    """A real child renames itself and its threads to hostile names; psutil's
    answers are compared with the same /proc text parsed by the model parser
    (comm between the first '(' and the LAST ')')."""
    import os
    import subprocess
    import sys

    import psutil
    from vlib import calib

    clk = CLK
    n = 0
    for i in range(0, len(LIVE_NAMES), 3):
        names = LIVE_NAMES[i:i + 3] + [LIVE_NAMES[(i * 7 + 5) % len(LIVE_NAMES)]]
        child = subprocess.Popen([sys.executable, "-S", "-c", _CHILD_CODE, ",".join(x.hex() for x in names)],
                                 stdin=subprocess.PIPE, stdout=subprocess.PIPE)
        try:
            child.stdout.readline()
            pid = child.pid
            case = {"live_names": names}
            p = psutil.Process(pid)
            with open(f"/proc/{pid}/stat", "rb") as f:
                _pid, comm, fld = calib.parse_stat(f.read())
            with open(f"/proc/{pid}/status", "rb") as f:
                status = dict(ln.split(b":\t", 1) for ln in f.read().split(b"\n")[1:] if b":\t" in ln)
            exp_threads = {}
            for tid in os.listdir(f"/proc/{pid}/task"):
                with open(f"/proc/{pid}/task/{tid}/stat", "rb") as f:
                    _t, tcomm, tf = calib.parse_stat(f.read())
                exp_threads[int(tid)] = (tcomm, int(tf[11]), int(tf[12]))
            try:
                got_name = p.name()
                got_threads = {t.id: t for t in p.threads()}
                got = dict(ppid=p.ppid(), uids=tuple(p.uids()), gids=tuple(p.gids()),
                           num_threads=p.num_threads(), status=p.status())
            except Exception as e:  # noqa: BLE001
                stats.fail(case, Violation("live-exception", repr(e)))
                continue
            want_name = comm.decode("utf-8", "surrogateescape")
            errs = []
            if got_name != want_name:
                errs.append(f"name {got_name!r} != {want_name!r}")
            if got["ppid"] != int(fld[1]):
                errs.append(f"ppid {got['ppid']} != {int(fld[1])}")
            if got["uids"] != tuple(map(int, status[b"Uid"].split()[:3])):
                errs.append(f"uids {got['uids']} != {status[b'Uid']!r}")
            if got["gids"] != tuple(map(int, status[b"Gid"].split()[:3])):
                errs.append(f"gids {got['gids']} != {status[b'Gid']!r}")
            if got["num_threads"] != int(status[b"Threads"]):
                errs.append(f"num_threads {got['num_threads']} != {status[b'Threads']!r}")
            if set(got_threads) != set(exp_threads):
                errs.append(f"thread ids {sorted(got_threads)} != {sorted(exp_threads)}")
            else:
                for tid, (tcomm, ut, st_) in exp_threads.items():
                    g = got_threads[tid]
                    # the workers are parked: their counters no longer move
                    if tid != pid and (abs(g.user_time - ut / clk) > 0.011 or abs(g.system_time - st_ / clk) > 0.011):
                        errs.append(f"thread {tid} ({tcomm!r}) times {g.user_time},{g.system_time} "
                                    f"!= {ut}/{clk},{st_}/{clk}")
            if errs:
                stats.fail(case, Violation("live-facts", "; ".join(errs)))
                continue
            n += 1
            stats.record(case, Result(["live-child"], "live|" + "|".join(x.hex() for x in names)),
                         keep_sample=(n == 1))
        finally:
            try:
                child.stdin.write(b"\n")
                child.stdin.flush()
            except OSError:
                pass
            child.kill()
            child.wait()
    stats.notes["live_children_checked"] = n


PROP = Property(
    prelude=True,
    id="C06",
    level="exploration",
    rule=("Hypothesis generates kernel-formatted stat/status/task records "
          "(comm from a format-aware dictionary + arbitrary bytes, boundary-"
          "biased counters up to 2^64-1, 1..n threads, 41..52-field records, "
          "tty map); every listed method is called and compared with the "
          "model.  Non-trivial = a process/thread name containing ')' '(' "
          "space, newline, a status-file label, non-UTF-8 bytes, 0 or 15 "
          "bytes, or a counter >= 2^53, or an old-kernel record; distinct = "
          "distinct feature set x thread-count class."),
    strategy=strategy,
    run_case=run_case,
    budgets={"quick": 16000, "thorough": 120000},
    calibrate=calibrate,
    extra_tiers=[("live", live_tier)],
    assumptions=[
        "vlib.simk renders stat/status as proc(5) and fs/proc/array.c "
        "describe them; the renderer is calibrated against the live kernel "
        "(byte-exact round trip of /proc/self/{stat,status}, and a live "
        "thread renamed with prctl) in every run",
        "the process name cannot contain NUL and is at most 15 bytes",
        "cmdline is empty (live process) so the 15-byte extension rule of "
        "C12 is inert here",
    ],
    trusted_base=["vlib/simk.py renderers", "hypothesis"],
)

if __name__ == "__main__":
    main(PROP, "props.c06_procfacts")
