"""C07 - CPU times and CPU percentages are exact shares of elapsed time.

Domain: programs over a simulated /proc/stat: snapshot changes (any per-field
delta incl. zero, sub-tick totals, huge, negative), calls to cpu_times /
cpu_percent / cpu_times_percent (blocking with virtual sleep, non-blocking,
negative interval; percpu or not) issued from 1-3 persistent threads, and
Process.cpu_percent() histories with a virtual monotonic clock.
Oracle: exact-rational reference.
"""

import queue
import threading
from fractions import Fraction

from hypothesis import strategies as st

from vlib import simk
from vlib.runner import HarnessError
from vlib.runner import Property
from vlib.runner import Result
from vlib.runner import Violation
from vlib.runner import known_keys
from vlib.runner import main

KNOWN_SUBSEC = "C07-times-percent-subsecond-total"

CLK = simk.CLK_TCK
FIELDS = ["user", "nice", "system", "idle", "iowait", "irq", "softirq",
          "steal", "guest", "guest_nice"]


def field_delta():
    return st.one_of(
        st.sampled_from([0, 0, 1, 1, 2, 49, 50, 99, 100, 101]),
        st.integers(0, 300),
        st.integers(10**3, 10**9),
        st.integers(-10**6, -1),
        st.sampled_from([-1, -100]),
    )


def sparse_row():
    # sub-second totals: most fields unchanged, one or two move by < 1 s
    return st.tuples(st.integers(0, 9), st.integers(1, 99), st.integers(0, 9),
                     st.sampled_from([0, 0, 1, 30])).map(
        lambda t: [(t[1] if i == t[0] else 0) + (t[3] if i == t[2] else 0)
                   for i in range(10)])


def delta_st(ncpu_max=8):
    # per cpu (index modulo the number of cpus) list of 10 field deltas
    row = st.one_of(st.lists(field_delta(), min_size=10, max_size=10),
                    sparse_row())
    return st.lists(row, min_size=1, max_size=ncpu_max)


def strategy(tier):
    nops = 12 if tier == "quick" else 30
    interval = st.sampled_from([None, None, 0, 0.0, 0.001, 0.1, 0.5, 1, 2.5,
                                -1, -0.5])
    call = st.tuples(
        st.just("call"),
        st.sampled_from(["cpu_percent", "cpu_percent", "cpu_times_percent",
                         "cpu_times_percent", "cpu_times"]),
        interval, st.booleans(), st.integers(0, 2), delta_st())
    snap = st.tuples(st.just("snap"), delta_st())
    pcall = st.tuples(st.just("pcall"), interval,
                      st.sampled_from([0, 0, 1, 7, 100, 10**6]),   # d utime
                      st.sampled_from([0, 1, 3, 100, 10**5]),      # d stime
                      st.sampled_from([0.0, 0.001, 0.25, 1.0, 3.0]),  # wall dt
                      # the process reaps children / waits for block I/O in
                      # between: cutime, cstime, delayacct_blkio_ticks grow
                      st.sampled_from([(0, 0, 0), (0, 0, 0), (500, 0, 0), (0, 40, 0),
                                       (0, 0, 300), (10**6, 10**5, 77)]))
    return st.fixed_dictionaries(dict(
        nfields=st.sampled_from([7, 8, 9, 10, 10, 10]),
        # blocking calls: time.sleep(interval) takes this much longer than asked
        oversleep=st.sampled_from([0, 0, 0, 0.5, 1.0, 3.0]),
        cpu_ids=st.sampled_from([[0], [0, 1], [0, 1, 2, 3], [0, 2], [1, 3, 5],
                                 [0, 1, 2, 3, 4, 5, 6, 7], [0, 1, 2, 3, 4, 5, 6, 7, 8, 9, 10, 11]]),
        base=st.lists(st.one_of(st.integers(0, 10**7),
                                st.sampled_from([0, 2**32, 2**40])),
                      min_size=10, max_size=10),
        skew=st.sampled_from([0, 0, 0, 3, 1000]),
        nthreads=st.integers(1, 3),
        # focus: every call op uses this (api, percpu) family, non-blocking,
        # so that several threads interleave on one family's samples
        focus=st.one_of(st.none(), st.none(), st.tuples(
            st.sampled_from(["cpu_percent", "cpu_times_percent"]),
            st.booleans())),
        ops=st.lists(st.one_of(call, call, snap, pcall), min_size=1, max_size=nops),
    ))


class Workers:
    """Persistent threads so that thread idents stay distinct and stable."""

    def __init__(self, n):
        self.qs = [queue.Queue() for _ in range(n)]
        self.out = queue.Queue()
        self.threads = [threading.Thread(target=self._loop, args=(q,), daemon=True)
                        for q in self.qs]
        for t in self.threads:
            t.start()

    def _loop(self, q):
        while True:
            fn = q.get()
            if fn is None:
                return
            try:
                self.out.put(("ok", fn()))
            except BaseException as e:  # noqa: BLE001
                self.out.put(("exc", e))

    def run(self, i, fn):
        self.qs[i % len(self.qs)].put(fn)
        kind, val = self.out.get(timeout=60)
        return kind, val

    def stop(self):
        for q in self.qs:
            q.put(None)
        for t in self.threads:
            t.join(5)


class Model:
    def __init__(self, case):
        self.nf = case["nfields"]
        self.ids = case["cpu_ids"]
        self.cur = [[case["base"][f] + 13 * i for f in range(self.nf)]
                    for i in range(len(self.ids))]
        self.skew = case["skew"]

    def apply(self, delta):
        for i in range(len(self.ids)):
            row = delta[i % len(delta)]
            for f in range(self.nf):
                self.cur[i][f] = max(0, self.cur[i][f] + row[f])
            # kernel/sched/cputime.c account_guest_time(): time spent running
            # a guest is added to user (nice) AND to guest (guest_nice), so a
            # CPU's guest share never grows by more than its user share
            if self.nf >= 9 and row[8] > 0:
                self.cur[i][0] += row[8]
            if self.nf >= 10 and row[9] > 0:
                self.cur[i][1] += row[9]

    def agg(self):
        return [sum(c[f] for c in self.cur) + self.skew for f in range(self.nf)]

    def snapshot(self):
        return (tuple(self.agg()), tuple(tuple(c) for c in self.cur))

    def render(self):
        out = ["cpu  " + " ".join(map(str, self.agg()))]
        for cid, c in zip(self.ids, self.cur):
            out.append("cpu%d %s" % (cid, " ".join(map(str, c))))
        out += ["intr 12345 1 2 3", "ctxt 999", "btime 1700000000",
                "processes 4242", "procs_running 1", "procs_blocked 0",
                "softirq 777 1 2 3"]
        return ("\n".join(out) + "\n").encode()


def exp_percent(t1, t2, nf):
    d = [max(0, b - a) for a, b in zip(t1, t2)]
    total = sum(d[:min(nf, 8)])  # guest, guest_nice are sub-shares of user/nice
    busy = total - d[3] - d[4]
    if total == 0:
        return Fraction(0), total
    return Fraction(100 * busy, total), total


def exp_times_percent(t1, t2, nf):
    d = [max(0, b - a) for a, b in zip(t1, t2)]
    total = sum(d[:min(nf, 8)])
    if total == 0:
        return [Fraction(0)] * nf, total
    return [min(Fraction(100), Fraction(100 * x, total)) for x in d], total


def tol(total_ticks, maxval_ticks):
    # rounding to one decimal + float error of seconds arithmetic
    t = Fraction(1, 20) + Fraction(1, 10**6)
    if total_ticks:
        eps_abs = Fraction(maxval_ticks + 1, CLK) * 64 / 2**53
        t += 200 * eps_abs / Fraction(total_ticks, CLK)
    return t


def run_case(case):
    import psutil

    strict = bool(case.get("allow_known")) or KNOWN_SUBSEC not in known_keys("C07")
    excluded = 0
    m = Model(case)
    nf = m.nf
    k = simk.Kernel(ncpus=len(m.ids))
    k.set_file("/proc/stat", m.render())
    proc = k.spawn(777, comm=b"w", utime=5, stime=7, starttime=100)
    k.oversleep = case.get("oversleep", 0)
    labels = set()
    last = {}  # (family, thread) -> snapshot part used as "previous sample"
    workers = Workers(case["nthreads"])

    def set_stat():
        k.files["/proc/stat"] = m.render()

    try:
        with simk.installed(k):
            pobj = psutil.Process(777)
            p_last = None  # (wall, utime+stime ticks)
            for op in case["ops"]:
                if op[0] == "snap":
                    m.apply(op[1])
                    set_stat()
                    continue
                if op[0] == "pcall":
                    _, interval, du, ds, dt = op[:5]
                    dother = tuple(op[5]) if len(op) > 5 else (0, 0, 0)
                    blocking = interval is not None and interval > 0

                    def burn(du=du, ds=ds, dother=dother):
                        proc.utime += du
                        proc.stime += ds
                        proc.cutime += dother[0]
                        proc.cstime += dother[1]
                        if proc.blkio is not None:
                            proc.blkio += dother[2]

                    def during(now, burn=burn):
                        burn()
                        k.on_time = None

                    if blocking:
                        k.on_time = during
                        t_start = (k.now, proc.utime + proc.stime)
                    else:
                        # time passes and the process burns CPU between calls
                        k.now += dt
                        burn()
                    try:
                        got = pobj.cpu_percent(interval)
                        exc = None
                    except Exception as e:  # noqa: BLE001
                        got, exc = None, e
                    k.on_time = None
                    if interval is not None and interval < 0:
                        if not isinstance(exc, ValueError):
                            raise Violation("proc-negative-interval",
                                            f"interval={interval}: got {got!r} exc {exc!r}")
                        labels.add("proc-negative")
                        continue
                    if exc is not None:
                        raise Violation("proc-no-exception", repr(exc))
                    if not isinstance(got, float):
                        raise Violation("proc-percent", f"cpu_percent({interval!r}) returned {got!r}, not a float")
                    nowt = (k.now, proc.utime + proc.stime)
                    if blocking and Fraction(nowt[0]) - Fraction(t_start[0]) < Fraction(interval) * Fraction(999, 1000):
                        raise Violation("proc-blocking-interval",
                                        f"cpu_percent({interval!r}) returned after {nowt[0] - t_start[0]} s of "
                                        f"(virtual) time: the two samples are not {interval} s apart")
                    if blocking:
                        prev = t_start
                    else:
                        prev = p_last
                    if prev is None:
                        if got != 0.0:
                            raise Violation("proc-first-call", f"first call returned {got!r}")
                        labels.add("proc-first")
                    else:
                        dwall = Fraction(nowt[0]) - Fraction(prev[0])
                        dcpu = Fraction(nowt[1] - prev[1], CLK)
                        exp = Fraction(0) if dwall == 0 else 100 * dcpu / dwall
                        if abs(Fraction(got) - exp) > Fraction(1, 20) + abs(exp) / 10**9 + Fraction(1, 10**6):
                            raise Violation("proc-percent",
                                            f"cpu_percent({interval!r}) = {got!r}; "
                                            f"100*{float(dcpu)}/{float(dwall)} = {float(exp)!r}")
                        labels.add("proc-blocking" if blocking else "proc-nonblocking")
                        if blocking and k.oversleep:
                            labels.add("proc-blocking-oversleep")
                        if any(dother):
                            labels.add("proc-children-or-iowait-grew")
                        if dwall == 0:
                            labels.add("proc-dt0")
                    p_last = nowt
                    continue

                _, api, interval, percpu, thr, dur = op
                if case.get("focus"):
                    api, percpu = case["focus"]
                    if interval is not None and interval > 0:
                        interval = None
                    labels.add("focused")
                thr = thr % case["nthreads"]
                fam = (api, percpu, thr)
                blocking = interval is not None and interval > 0
                before = m.snapshot()

                def during(now, dur=dur):
                    m.apply(dur)
                    set_stat()
                    k.on_time = None

                if blocking:
                    k.on_time = during
                now_before = k.now
                fn = getattr(psutil, api)
                if api == "cpu_times":
                    kind, got = workers.run(thr, lambda: fn(percpu=percpu))
                else:
                    kind, got = workers.run(
                        thr, lambda: fn(interval=interval, percpu=percpu))
                k.on_time = None
                after = m.snapshot()
                if kind == "exc":
                    if (api != "cpu_times" and interval is not None and interval < 0
                            and isinstance(got, ValueError)):
                        labels.add("negative-interval")
                        continue
                    raise Violation("no-exception", f"{api}({interval!r}, percpu={percpu}) raised {got!r}")
                if api != "cpu_times" and interval is not None and interval < 0:
                    raise Violation("negative-interval", f"{api}({interval!r}) returned {got!r}")
                if api != "cpu_times" and blocking and \
                        Fraction(k.now) - Fraction(now_before) < Fraction(interval) * Fraction(999, 1000):
                    raise Violation("blocking-interval",
                                    f"{api}({interval!r}) returned after {k.now - now_before} s of (virtual) "
                                    f"time: its two samples are not {interval} s apart")

                sel = (lambda s: list(s[1])) if percpu else (lambda s: [s[0]])
                if api == "cpu_times":
                    rows = got if percpu else [got]
                    exp_rows = sel(after)
                    if len(rows) != len(exp_rows):
                        raise Violation("cpu_times-len", f"{len(rows)} rows, kernel lists {len(exp_rows)}")
                    for r, e in zip(rows, exp_rows):
                        if list(r._fields) != FIELDS[:nf]:
                            raise Violation("cpu_times-fields", repr(r._fields))
                        for name, gv, ev in zip(r._fields, r, e):
                            exact = Fraction(ev, CLK)
                            if abs(Fraction(gv) - exact) > abs(exact) / 2**50:
                                raise Violation("cpu_times-value", f"{name}={gv!r} kernel {ev}/{CLK}")
                    labels.add("cpu_times-percpu" if percpu else "cpu_times")
                    continue

                t2 = sel(after)
                if blocking:
                    t1 = sel(before)
                    first = False
                else:
                    prev = last.get(fam)
                    first = prev is None
                    t1 = prev if prev is not None else t2
                last[fam] = t2
                rows = got if percpu else [got]
                if len(rows) != len(t2):
                    raise Violation("rows", f"{api}: {len(rows)} rows for {len(t2)} cpus")
                for r, a, b in zip(rows, t1, t2):
                    mx = max(max(a), max(b))
                    if api == "cpu_percent":
                        exp, total = exp_percent(a, b, nf)
                        if not 0.0 <= r <= 100.0:
                            raise Violation("percent-range", f"{r!r}")
                        if not first and abs(Fraction(r) - exp) > tol(total, mx):
                            raise Violation("cpu_percent",
                                            f"{r!r} expected {float(exp)!r} t1={a} t2={b}")
                    else:
                        exps, total = exp_times_percent(a, b, nf)
                        if list(r._fields) != FIELDS[:nf]:
                            raise Violation("times_percent-fields", repr(r._fields))
                        moved = any(y > x for x, y in zip(a, b))
                        if total < CLK and moved and not strict:
                            # recorded known finding: shares are scaled by the
                            # total when less than one CPU-second elapsed
                            excluded += 1
                            for gv in r:
                                if not 0.0 <= gv <= 100.0:
                                    raise Violation("times_percent-range", repr(r))
                            continue
                        for name, gv, ev in zip(r._fields, r, exps):
                            if not 0.0 <= gv <= 100.0:
                                raise Violation("times_percent-range", f"{name}={gv!r}")
                            if not first and abs(Fraction(gv) - ev) > tol(total, mx):
                                raise Violation(
                                    "times_percent-share",
                                    f"{name}={gv!r} expected {float(ev)!r} "
                                    f"(total {total} ticks) t1={a} t2={b}")
                        if not first and total > 0:
                            s = sum(Fraction(x) for x in list(r)[:min(nf, 8)])
                            if abs(s - 100) > Fraction(1, 20) * min(nf, 8) + tol(total, mx):
                                raise Violation(
                                    "times_percent-sum",
                                    f"shares sum to {float(s)!r} with total={total} ticks: {r!r}")
                    # classification
                    d = [y - x for x, y in zip(a, b)]
                    tt = sum(max(0, x) for x in d[:min(nf, 8)])
                    if any(x < 0 for x in d):
                        labels.add("decreasing-field")
                    if 0 < tt < CLK:
                        labels.add("total<1s")
                    if tt == 0:
                        labels.add("total==0")
                    if nf >= 9 and max(0, d[8]) > 0:
                        labels.add("guest>0")
                labels.add(f"{api}:{'blocking' if blocking else 'nonblocking'}:"
                           f"{'percpu' if percpu else 'sys'}")
                if first:
                    labels.add("first-call")
                if case["nthreads"] > 1:
                    labels.add("threads>=2")
    finally:
        workers.stop()
    labels.add("nf=%d" % nf)
    if case["cpu_ids"] in ([0, 2], [1, 3, 5]):
        labels.add("noncontiguous-cpus")
    shape = {x for x in labels if x in ("decreasing-field", "total<1s", "guest>0",
                                        "threads>=2", "proc-blocking",
                                        "proc-nonblocking", "proc-dt0",
                                        "noncontiguous-cpus")}
    nontrivial = None
    if shape:
        apis = sorted(x for x in labels if ":" in x)
        nontrivial = ",".join(sorted(shape)) + "|" + ",".join(apis) + "|nf%d" % nf
    return Result(sorted(labels), nontrivial, {"excluded": excluded})


def calibrate():
    with open("/proc/stat", "rb") as f:
        lines = f.read().splitlines()
    first = lines[0].split()
    if first[0] != b"cpu" or not 8 <= len(first) <= 11:
        raise HarnessError(f"live /proc/stat first line: {lines[0]!r}")
    if not lines[0].startswith(b"cpu  "):
        raise HarnessError("aggregate cpu line format")
    per = [ln for ln in lines if ln.startswith(b"cpu") and ln[3:4].isdigit()]
    if not per:
        raise HarnessError("no per-cpu lines")
    agg = list(map(int, first[1:]))
    sums = [sum(int(ln.split()[1 + i]) for ln in per) for i in range(len(agg))]
    # the aggregate line is (about) the per-cpu sum, column by column
    if any(abs(a - s) > max(200, a // 100) for a, s in zip(agg, sums)):
        raise HarnessError("aggregate line is not the column-wise per-cpu sum")
    return {"live_cpu_lines": len(per), "live_fields": len(first) - 1}


PROP = Property(
    id="C07",
    level="exploration",
    rule=("Hypothesis generates programs over a simulated /proc/stat: "
          "snapshot deltas per CPU and field (0, 1 tick, small, huge, "
          "negative), 7-10 kernel fields, contiguous and non-contiguous CPU "
          "numbering, calls to cpu_times/cpu_percent/cpu_times_percent "
          "(interval None/0/>0 with virtual sleep/<0, percpu or not) issued "
          "from 1-3 persistent threads at call granularity, and "
          "Process.cpu_percent histories under a virtual clock; every result "
          "is compared with an exact-rational reference per thread and API "
          "family.  Non-trivial = a pair with a decreasing field, 0<total<1s, "
          "guest>0, >=2 threads, non-contiguous CPUs or a Process.cpu_percent "
          "measurement; distinct = shape set x API forms x field count."),
    strategy=strategy,
    run_case=run_case,
    budgets={"quick": 6000, "thorough": 50000},
    calibrate=calibrate,
    assumptions=[
        "counters <= 2^40 ticks (2^64 ns of CPU time) so float seconds "
        "arithmetic stays within the stated tolerance",
        "the set of CPUs does not change within one program",
        "a thread's first non-blocking call is only checked for range "
        "(documented as meaningless)",
        "thread interleaving is at call granularity here (line-granularity "
        "schedules are not explored for this property)",
    ],
    trusted_base=["vlib/simk.py file layer and virtual time", "hypothesis"],
)

if __name__ == "__main__":
    main(PROP, "props.c07_cpu")
