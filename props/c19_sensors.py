"""C19 - sensors, battery, CPU frequency/count/stats, boot time mirror the
kernel's tables.

Domain: generated /sys and /proc trees (hwmon chips flat or with device/
nesting, thermal zones with trip points, power_supply layouts, cpufreq via
policy* or cpu*/cpufreq, cpuinfo/stat/topology variants).  Oracle: the
statement's arithmetic on the model tree.
"""

import errno
import importlib.util
import os
import sys
from fractions import Fraction

from hypothesis import strategies as st

from vlib import simk
from vlib.runner import Property
from vlib.runner import Result
from vlib.runner import Violation
from vlib.runner import main

# ------------------------------------------------------------------ strategy

THRESH = st.one_of(
    st.none(),                                  # file absent
    st.integers(-40000, 130000),                # millidegrees
    st.sampled_from([0, 0, 1000, 100000, -1]),
    st.sampled_from(["", "N/A", "abc"]),        # non-numeric / empty
    st.sampled_from(["eio", "enxio"]),          # file opens, read() fails
)


def temp_sensor():
    return st.fixed_dictionaries(dict(
        input=st.one_of(st.integers(-50000, 150000),
                        st.sampled_from([0, 45000, 99999]),
                        st.sampled_from(["missing", "eio", "enxio", "eacces",
                                         "garbage"])),
        max=THRESH, crit=THRESH,
        label=st.one_of(st.none(), st.sampled_from(["Core 0", "Package id 0",
                                                    "temp1", " spaced ", ""])),
        label_err=st.sampled_from([None, None, None, "eio"]),   # label file opens, read() fails
    ))


def fan_sensor():
    return st.fixed_dictionaries(dict(
        input=st.one_of(st.integers(0, 20000), st.sampled_from([0, 1200]),
                        st.sampled_from(["missing", "eio", "eacces"])),
        label=st.one_of(st.none(), st.sampled_from(["cpu_fan", "fan1", ""])),
        label_err=st.sampled_from([None, None, None, "eio"]),
    ))


def chip():
    return st.fixed_dictionaries(dict(
        name=st.sampled_from(["coretemp", "acpitz", "nvme", "k10temp",
                              "asus", "dell_smm", "iwlwifi_1"]),
        nested=st.booleans(),
        temps=st.dictionaries(st.sampled_from([1, 2, 3, 10, 11]), temp_sensor(),
                              max_size=4),
        fans=st.dictionaries(st.sampled_from([1, 2, 3]), fan_sensor(), max_size=3),
        platform_dup=st.booleans(),
    ))


def zone():
    trip = st.tuples(st.sampled_from(["critical", "hot", "passive", "active",
                                      "high"]),
                     st.one_of(st.integers(0, 130000),
                               st.sampled_from([0, 105000, 95000]),
                               st.sampled_from(["N/A", ""])))     # not a number
    return st.fixed_dictionaries(dict(
        type=st.sampled_from(["x86_pkg_temp", "acpitz", "cpu-thermal", "B0D4"]),
        temp=st.one_of(st.integers(-20000, 120000),
                       st.sampled_from(["missing", "eio", "garbage"])),
        trips=st.lists(trip, max_size=4, unique_by=lambda t: t[0]),
    ))


def battery():
    val = st.one_of(st.none(), st.integers(0, 10**8),
                    st.sampled_from([0, 1, 50000000]))
    return st.fixed_dictionaries(dict(
        name=st.sampled_from(["BAT0", "BAT1", "BATT", "battery",
                              "cw2015-battery", "macsmc-Battery"]),
        family=st.sampled_from(["energy", "charge", "mixed"]),
        now=val, full=val, power=val,
        capacity=st.one_of(st.none(), st.integers(0, 100)),
        status=st.one_of(st.none(), st.sampled_from(
            ["Discharging", "Charging", "Full", "Unknown", "Not charging"])),
        tte=st.one_of(st.none(), st.integers(-5, 1000)),
        # attribute files that exist and open but whose read() fails (ENODEV
        # while the battery is being re-detected): as good as absent
        eio=st.sets(st.sampled_from(["now", "full", "power", "capacity", "status", "tte"]),
                    max_size=2),
    ))


def strategy(tier):
    return st.fixed_dictionaries(dict(
        chips=st.lists(chip(), max_size=4),
        zones=st.lists(zone(), max_size=3),
        ps_dir=st.sampled_from([True, True, True, False]),
        bats=st.lists(battery(), max_size=2, unique_by=lambda b: b["name"]),
        ac=st.sampled_from([None, None, ("AC0", 1), ("AC0", 0), ("AC", 1),
                            ("AC", 0), ("ADP1", 1)]),
        other_supply=st.booleans(),
        fahrenheit=st.booleans(),
        # cpu frequency
        freq=st.fixed_dictionaries(dict(
            variant=st.sampled_from(["sysfs-policy", "sysfs-cpu", "cpuinfo"]),
            cpus=st.lists(st.fixed_dictionaries(dict(
                cur=st.one_of(st.integers(400000, 5500000),
                              st.sampled_from([800000, 2400000])),
                min=st.integers(100000, 1200000),
                max=st.integers(1200000, 6000000),
                cur_file=st.sampled_from(["scaling", "scaling", "cpuinfo_cur",
                                          "offline"]),
            )), min_size=0, max_size=13),
            cpuinfo_lines=st.sampled_from(["match", "match", "fewer", "none"]),
        )),
        # cpu count
        count=st.fixed_dictionaries(dict(
            packages=st.integers(1, 2), cores=st.integers(1, 4),
            threads=st.integers(1, 2),
            sysconf=st.booleans(),
            cpuinfo_processor=st.booleans(),
            topology=st.sampled_from(["core_cpus_list", "thread_siblings_list",
                                      "none"]),
            cpuinfo_phys=st.booleans(),
        )),
        stats=st.tuples(st.integers(0, 2**64 - 1), st.integers(0, 2**64 - 1),
                        st.integers(0, 2**64 - 1)),
        btime=st.one_of(st.integers(0, 2**32), st.sampled_from([0, 1700000000])),
    ))


# ------------------------------------------------------------------ tree


def put_reading(k, path, v):
    if v == "missing" or v is None:
        return
    if v == "eio":
        k.set_file(path, simk.Unreadable(errno.EIO, "read"))
    elif v == "enxio":
        k.set_file(path, simk.Unreadable(errno.ENXIO, "read"))
    elif v == "eacces":
        k.set_file(path, simk.Unreadable(errno.EACCES, "open"))
    elif v == "garbage":
        k.set_file(path, b"n/a\n")
    elif isinstance(v, str):
        k.set_file(path, (v + "\n").encode())
    else:
        k.set_file(path, b"%d\n" % v)


def readable_int(v):
    return isinstance(v, int) and not isinstance(v, bool)


def num_or_none(v):
    """Threshold file content -> degrees, None when absent or non-numeric."""
    if readable_int(v):
        return Fraction(v, 1000)
    return None


def backfill(high, crit):
    if high is not None and crit is None:
        crit = high
    elif crit is not None and high is None:
        high = crit
    return high, crit


def conv(x, fahrenheit):
    if x is None:
        return None
    return x * 9 / 5 + 32 if fahrenheit else x


def build(case):
    k = simk.Kernel(ncpus=4, btime=case["btime"])
    exp = {}
    # ---- hwmon
    k.mkdir("/sys/class")
    exp_t = {}
    exp_f = {}
    any_temp_base = False
    flat_fans = any((not c["nested"]) and any(
        s_["input"] != "missing" or s_["label"] is not None
        for s_ in c["fans"].values()) for c in case["chips"])
    for i, c in enumerate(case["chips"]):
        d = f"/sys/class/hwmon/hwmon{i}"
        k.mkdir(d)
        if c["nested"]:
            d += "/device"
            k.mkdir(d)
        k.set_file(d + "/name", (c["name"] + "\n").encode())
        for n, s in c["temps"].items():
            base = f"{d}/temp{n}"
            put_reading(k, base + "_input", s["input"])
            put_reading(k, base + "_max", s["max"])
            put_reading(k, base + "_crit", s["crit"])
            if s["label"] is not None:
                if s.get("label_err"):
                    k.set_file(base + "_label", simk.Unreadable(errno.EIO, "read"))
                    s = dict(s, label="")
                else:
                    k.set_file(base + "_label", (s["label"] + "\n").encode())
            listed = (s["input"] != "missing" or s["max"] is not None
                      or s["crit"] is not None or s["label"] is not None)
            if listed:
                any_temp_base = True
            if c["platform_dup"] and c["name"] == "coretemp" and not c["nested"]:
                pd = f"/sys/devices/platform/coretemp.0/hwmon/hwmon{i}"
                k.set_file(pd + "/name", b"coretemp\n")
                put_reading(k, f"{pd}/temp{n}_input", s["input"])
            if readable_int(s["input"]):
                high, crit = backfill(num_or_none(s["max"]), num_or_none(s["crit"]))
                exp_t.setdefault(c["name"], []).append(
                    ((s["label"] or "").strip(), Fraction(s["input"], 1000),
                     high, crit))
        for n, s in c["fans"].items():
            base = f"{d}/fan{n}"
            put_reading(k, base + "_input", s["input"])
            if s["label"] is not None:
                if s.get("label_err"):
                    k.set_file(base + "_label", simk.Unreadable(errno.EIO, "read"))
                    s = dict(s, label="")
                else:
                    k.set_file(base + "_label", (s["label"] + "\n").encode())
            # nested fans are only consulted when no flat chip lists fans
            visible = (not c["nested"]) or not flat_fans
            if readable_int(s["input"]) and visible:
                exp_f.setdefault(c["name"], []).append(
                    ((s["label"] or "").strip(), s["input"]))
    # ---- thermal zones (only consulted when hwmon lists no temp sensor)
    k.mkdir("/sys/class/thermal")
    for i, z in enumerate(case["zones"]):
        d = f"/sys/class/thermal/thermal_zone{i}"
        k.set_file(d + "/type", (z["type"] + "\n").encode())
        put_reading(k, d + "/temp", z["temp"])
        for j, (tt, tv) in enumerate(z["trips"]):
            k.set_file(f"{d}/trip_point_{j}_type", (tt + "\n").encode())
            k.set_file(f"{d}/trip_point_{j}_temp", (str(tv) + "\n").encode())
            k.set_file(f"{d}/trip_point_{j}_hyst", b"0\n")
        if not any_temp_base and readable_int(z["temp"]):
            trips = dict((t, v) for t, v in z["trips"])
            high = Fraction(trips["high"], 1000) if isinstance(trips.get("high"), int) else None
            crit = Fraction(trips["critical"], 1000) if isinstance(trips.get("critical"), int) else None
            high, crit = backfill(high, crit)
            exp_t.setdefault(z["type"], []).append(
                ("", Fraction(z["temp"], 1000), high, crit))
    exp["temps"] = exp_t
    exp["fans"] = exp_f
    exp["used_thermal"] = (not any_temp_base) and bool(case["zones"])

    # ---- power supply
    ps = "/sys/class/power_supply"
    if case["ps_dir"]:
        k.mkdir(ps)
        for b in case["bats"]:
            d = f"{ps}/{b['name']}"
            k.mkdir(d)
            fam = b["family"]
            now_n = "energy_now" if fam in ("energy", "mixed") else "charge_now"
            full_n = "energy_full" if fam == "energy" else "charge_full"
            pow_n = "power_now" if fam == "energy" else "current_now"
            bad = set(b.get("eio", ()))
            for key, fn_, v in (("now", now_n, b["now"]), ("full", full_n, b["full"]),
                                ("power", pow_n, b["power"]),
                                ("capacity", "capacity", b["capacity"]),
                                ("tte", "time_to_empty_now", b["tte"])):
                if v is not None:
                    if key in bad:
                        k.set_file(f"{d}/{fn_}", simk.Unreadable(errno.ENODEV, "read"))
                    else:
                        k.set_file(f"{d}/{fn_}", b"%d\n" % v)
            if b["status"] is not None:
                if "status" in bad:
                    k.set_file(f"{d}/status", simk.Unreadable(errno.ENODEV, "read"))
                else:
                    k.set_file(f"{d}/status", (b["status"] + "\n").encode())
            k.set_file(f"{d}/type", b"Battery\n")
        if case["ac"] is not None:
            k.set_file(f"{ps}/{case['ac'][0]}/online", b"%d\n" % case["ac"][1])
        if case["other_supply"]:
            k.set_file(f"{ps}/ucsi-source-psy-USBC000:001/online", b"1\n")
    bats = [dict(b, **{key: None for key in b.get("eio", ())}) for b in case["bats"]] \
        if case["ps_dir"] else []
    if not bats:
        exp["battery"] = None
    else:
        b = min(bats, key=lambda x: x["name"])
        if b["now"] is not None and b["full"] is not None:
            pct = Fraction(100 * b["now"], b["full"]) if b["full"] else Fraction(0)
        elif b["capacity"] is not None:
            pct = Fraction(b["capacity"])
        else:
            pct = None
        if pct is None:
            exp["battery"] = None
        else:
            plugged = None
            ac = case["ac"]
            if ac is not None and ac[0] in ("AC0", "AC"):
                plugged = ac[1] == 1
            elif b["status"] is not None:
                s = b["status"].lower()
                if s == "discharging":
                    plugged = False
                elif s in ("charging", "full"):
                    plugged = True
            if plugged:
                secs = "UNLIMITED"
            elif b["now"] is not None and b["power"] is not None:
                secs = (int(Fraction(b["now"] * 3600, b["power"]))
                        if b["power"] else "UNKNOWN")
            elif b["tte"] is not None:
                secs = b["tte"] * 60 if b["tte"] >= 0 else "UNKNOWN"
            else:
                secs = "UNKNOWN"
            exp["battery"] = (pct, secs, plugged)

    # ---- cpu tables
    cn = case["count"]
    P, C, T = cn["packages"], cn["cores"], cn["threads"]
    nlog = P * C * T
    k.ncpus = nlog if cn["sysconf"] else None
    cpuinfo = []
    fr = case["freq"]
    fcpus = fr["cpus"]
    n_mhz = {"match": len(fcpus), "fewer": max(0, len(fcpus) - 1), "none": 0}[fr["cpuinfo_lines"]]
    if fr["variant"] == "cpuinfo":
        n_mhz = len(fcpus)
    logical = 0
    for p in range(P):
        for c in range(C):
            for t in range(T):
                sec = []
                if cn["cpuinfo_processor"]:
                    sec.append("processor\t: %d" % logical)
                sec.append("vendor_id\t: GenuineSim")
                sec.append("model name\t: Sim CPU @ 2.40GHz")
                if logical < n_mhz:
                    f = fcpus[logical]
                    mhz = Fraction(f["cur"], 1000)
                    sec.append("cpu MHz\t\t: %d.%03d" % (mhz.numerator // mhz.denominator,
                                                        f["cur"] % 1000))
                if cn["cpuinfo_phys"]:
                    sec.append("physical id\t: %d" % p)
                    sec.append("siblings\t: %d" % (C * T))
                    sec.append("core id\t\t: %d" % c)
                    sec.append("cpu cores\t: %d" % C)
                sec.append("flags\t\t: fpu vme")
                cpuinfo.append("\n".join(sec) + "\n")
                if cn["topology"] != "none":
                    sibs = [p * C * T + c * T + tt for tt in range(T)]
                    k.set_file(
                        f"/sys/devices/system/cpu/cpu{logical}/topology/{cn['topology']}",
                        (simk.render_cpus_list(sibs) + "\n").encode())
                logical += 1
    # extra "cpu MHz" sections if the frequency table is longer than the cpu table
    for extra in range(logical, n_mhz):
        f = fcpus[extra]
        cpuinfo.append("model name\t: extra\ncpu MHz\t\t: %d.%03d\n"
                       % (f["cur"] // 1000, f["cur"] % 1000))
    k.set_file("/proc/cpuinfo", "\n".join(cpuinfo).encode() + b"\n")
    stat = ["cpu  1 2 3 4 5 6 7 8 9 10"]
    stat += ["cpu%d 1 2 3 4 5 6 7 8 9 10" % i for i in range(nlog)]
    stat += ["intr %d 9 0 0 1" % case["stats"][1], "ctxt %d" % case["stats"][0],
             "btime %d" % case["btime"], "processes 100", "procs_running 2",
             "procs_blocked 0", "softirq %d 1 2 3 4" % case["stats"][2]]
    k.set_file("/proc/stat", ("\n".join(stat) + "\n").encode())
    exp["count_logical"] = nlog if (cn["sysconf"] or cn["cpuinfo_processor"] or nlog) else None
    if cn["topology"] != "none" or cn["cpuinfo_phys"]:
        exp["count_cores"] = P * C
    else:
        exp["count_cores"] = None

    # ---- cpufreq tree
    exp_freq = []
    if fr["variant"] != "cpuinfo":
        for i, f in enumerate(fcpus):
            if fr["variant"] == "sysfs-policy":
                d = f"/sys/devices/system/cpu/cpufreq/policy{i}"
            else:
                d = f"/sys/devices/system/cpu/cpu{i}/cpufreq"
            k.mkdir(d)
            k.set_file(d + "/scaling_min_freq", b"%d\n" % f["min"])
            k.set_file(d + "/scaling_max_freq", b"%d\n" % f["max"])
            mode = f["cur_file"]
            if mode == "scaling":
                k.set_file(d + "/scaling_cur_freq", b"%d\n" % f["cur"])
            elif mode == "cpuinfo_cur":
                k.set_file(d + "/cpuinfo_cur_freq", b"%d\n" % f["cur"])
            else:
                k.set_file(f"/sys/devices/system/cpu/cpu{i}/online", b"0\n")
            use_cpuinfo = n_mhz == len(fcpus)
            if mode == "offline" and not use_cpuinfo:
                exp_freq.append((Fraction(0), Fraction(0), Fraction(0)))
            else:
                exp_freq.append((Fraction(f["cur"], 1000), Fraction(f["min"], 1000),
                                 Fraction(f["max"], 1000)))
    else:
        for f in fcpus:
            exp_freq.append((Fraction(f["cur"], 1000), Fraction(0), Fraction(0)))
    exp["freq"] = exp_freq
    return k, exp


# ------------------------------------------------------------------ variant


_VARIANT = {}


def sysfs_cpu_freq_variant():
    """Second copy of psutil/_pslinux.py executed with os.path.exists patched
    so that the import-time branch selects the /sys cpufreq implementation."""
    if "mod" in _VARIANT:
        return _VARIANT["mod"]
    import psutil
    import psutil._pslinux as L

    real_exists = os.path.exists

    def fake_exists(p):
        if p in ("/sys/devices/system/cpu/cpufreq/policy0",
                 "/sys/devices/system/cpu/cpu0/cpufreq"):
            return True
        return real_exists(p)

    spec = importlib.util.spec_from_file_location(
        "psutil._pslinux_sysfsfreq", L.__file__)
    mod = importlib.util.module_from_spec(spec)
    mod.__package__ = "psutil"
    os.path.exists = fake_exists
    try:
        spec.loader.exec_module(mod)
    finally:
        os.path.exists = real_exists
    assert "Contrarily" in (mod.cpu_freq.__doc__ or ""), "sysfs variant not selected"
    _VARIANT["mod"] = mod
    return mod


def approx(a, b, rel=1e-12):
    if a is None or b is None:
        return a is None and b is None
    return abs(Fraction(a) - b) <= abs(b) * Fraction(rel) + Fraction(1, 10**12)


def run_case(case):
    import psutil
    import psutil._pslinux as L

    k, exp = build(case)
    fah = case["fahrenheit"]
    got = {}
    with simk.installed(k):
        saved_freq = L.cpu_freq
        fr = case["freq"]
        try:
            if fr["variant"] != "cpuinfo":
                v = sysfs_cpu_freq_variant()
                v.os, v.glob = L.os, L.glob
                L.cpu_freq = v.cpu_freq
            else:
                assert "Alternate" in (L.cpu_freq.__doc__ or ""), \
                    "cpuinfo variant expected at import time in this sandbox"
            calls = [
                ("temps", lambda: psutil.sensors_temperatures(fahrenheit=fah)),
                ("fans", psutil.sensors_fans),
                ("battery", psutil.sensors_battery),
                ("freq_percpu", lambda: psutil.cpu_freq(percpu=True)),
                ("freq", lambda: psutil.cpu_freq(percpu=False)),
                ("count_logical", lambda: psutil.cpu_count(logical=True)),
                ("count_cores", lambda: psutil.cpu_count(logical=False)),
                ("stats", psutil.cpu_stats),
                ("boot_time", psutil.boot_time),
            ]
            for name, fn in calls:
                try:
                    got[name] = fn()
                except Exception as e:  # noqa: BLE001
                    import traceback
                    raise Violation(name + "-no-exception",
                                    f"{name} raised {e!r} " + traceback.format_exc()[-500:]) from None
        finally:
            L.cpu_freq = saved_freq

    labels = set()
    # ---- temperatures
    t = got["temps"]
    if set(t) != set(exp["temps"]):
        raise Violation("temps-chips", f"{sorted(t)} expected {sorted(exp['temps'])}")
    for name, rows in exp["temps"].items():
        want = [(lab, conv(cur, fah), conv(h, fah), conv(c, fah))
                for lab, cur, h, c in rows]
        have = sorted(((r.label, r.current, r.high, r.critical) for r in t[name]),
                      key=lambda r: (r[0], r[1], repr(r[2]), repr(r[3])))
        want.sort(key=lambda r: (r[0], r[1], repr(None if r[2] is None else float(r[2])),
                                 repr(None if r[3] is None else float(r[3]))))
        ok = len(want) == len(have) and all(
            a[0] == b[0] and approx(a[1], b[1]) and approx(a[2], b[2]) and approx(a[3], b[3])
            for a, b in zip(have, want))
        if not ok:
            raise Violation(
                "temps-values",
                f"{name}: {t[name]!r} expected "
                f"{[(w[0],) + tuple(None if x is None else float(x) for x in w[1:]) for w in want]}"
                f" (fahrenheit={fah}, thermal_zone={exp['used_thermal']})")
    # ---- fans
    f = got["fans"]
    if set(f) != set(exp["fans"]):
        raise Violation("fans-chips", f"{sorted(f)} expected {sorted(exp['fans'])}")
    for name, rows in exp["fans"].items():
        if sorted((r.label, r.current) for r in f[name]) != sorted(rows):
            raise Violation("fans-values", f"{name}: {f[name]!r} expected {rows}")
    # ---- battery
    b = got["battery"]
    eb = exp["battery"]
    if eb is None:
        if b is not None:
            raise Violation("battery-none", f"{b!r} expected None")
    else:
        pct, secs, plugged = eb
        secs_v = {"UNLIMITED": psutil.POWER_TIME_UNLIMITED,
                  "UNKNOWN": psutil.POWER_TIME_UNKNOWN}.get(secs, secs)
        if b is None or not approx(b.percent, pct, 1e-9) or b.secsleft != secs_v \
                or b.power_plugged is not plugged:
            raise Violation("battery-values", f"{b!r} expected percent={float(pct)} "
                            f"secsleft={secs} plugged={plugged}")
    # ---- cpu freq
    ef = exp["freq"]
    gp = got["freq_percpu"]
    # /proc/cpuinfo prints MHz with three decimals: allow 1 kHz on "current"
    def cur_ok(a, b):
        return abs(Fraction(a) - b) <= Fraction(1, 1000) + Fraction(1, 10**9)

    if len(gp) != len(ef) or not all(
            cur_ok(g.current, e[0]) and approx(g.min, e[1]) and approx(g.max, e[2])
            for g, e in zip(gp, ef)):
        raise Violation("freq-percpu", f"{gp!r} expected "
                        f"{[tuple(float(x) for x in e) for e in ef]}")
    g = got["freq"]
    if not ef:
        if g is not None:
            raise Violation("freq-none", repr(g))
    else:
        n = len(ef)
        mean = tuple(sum(e[i] for e in ef) / n for i in range(3))
        if g is None or not (cur_ok(g.current, mean[0]) and approx(g.min, mean[1], 1e-9)
                             and approx(g.max, mean[2], 1e-9)):
            raise Violation("freq-mean", f"{g!r} expected {[float(x) for x in mean]}")
    # ---- counts, stats, boot time
    if got["count_logical"] != exp["count_logical"]:
        raise Violation("cpu_count-logical", f"{got['count_logical']!r} expected {exp['count_logical']!r}")
    if got["count_cores"] != exp["count_cores"]:
        raise Violation("cpu_count-cores", f"{got['count_cores']!r} expected {exp['count_cores']!r}")
    s = got["stats"]
    if (s.ctx_switches, s.interrupts, s.soft_interrupts) != tuple(case["stats"]):
        raise Violation("cpu_stats", f"{s!r} expected {case['stats']}")
    if got["boot_time"] != float(case["btime"]):
        raise Violation("boot_time", f"{got['boot_time']!r} expected {case['btime']}")

    # ---- classification
    nsens = sum(len(c["temps"]) + len(c["fans"]) for c in case["chips"])
    missing_opt = any(s_["max"] is None or s_["crit"] is None or s_["label"] is None
                      for c in case["chips"] for s_ in c["temps"].values())
    if nsens >= 2 and missing_opt:
        labels.add("hwmon>=2+missing-optional")
    if any(c["nested"] for c in case["chips"]):
        labels.add("nested-device-dir")
    if any(s_["input"] in ("missing", "eio", "enxio", "eacces", "garbage")
           for c in case["chips"] for s_ in list(c["temps"].values()) + list(c["fans"].values())):
        labels.add("unreadable-reading")
    if any(isinstance(s_[x], str) for c in case["chips"] for s_ in c["temps"].values()
           for x in ("max", "crit")):
        labels.add("non-numeric-threshold")
    if any(s_[x] == 0 for c in case["chips"] for s_ in c["temps"].values()
           for x in ("max", "crit")):
        labels.add("zero-threshold")
    if exp["used_thermal"]:
        labels.add("thermal-zone")
        if any(len(z["trips"]) >= 2 for z in case["zones"]):
            labels.add("thermal>=2-trips")
    if eb is not None:
        labels.add("battery")
        bb = min(case["bats"], key=lambda x: x["name"])
        if bb["family"] != "energy":
            labels.add("battery-alt-files")
        if bb["now"] is None or bb["full"] is None:
            labels.add("battery-capacity-only")
    if not case["ps_dir"]:
        labels.add("no-power_supply-dir")
    if fah:
        labels.add("fahrenheit")
    labels.add("freq-" + fr["variant"])
    if any(c_["cur_file"] == "offline" for c_ in fr["cpus"]):
        labels.add("freq-offline-cpu")
    if not case["count"]["sysconf"]:
        labels.add("count-fallback")
    if case["count"]["topology"] == "none":
        labels.add("cores-from-cpuinfo")
    interesting = labels - {"fahrenheit", "freq-cpuinfo"}
    nontrivial = ",".join(sorted(labels)) if interesting else None
    return Result(sorted(labels), nontrivial)


PROP = Property(
    prelude=True,
    id="C19",
    level="exploration",
    rule=("Hypothesis generates /sys and /proc trees: 0-4 hwmon chips (flat "
          "or device/ nested) with temp and fan sensors carrying any subset "
          "of _input/_max/_crit/_label, unreadable / non-numeric files, zero "
          "thresholds; 0-3 thermal zones with trip points; power_supply "
          "absent/empty/1-2 batteries in either file family with AC0/AC/other "
          "adapters; cpufreq via policy*, cpu*/cpufreq or cpuinfo only (both "
          "import-time variants of cpu_freq); cpu tables for cpu_count / "
          "cpu_stats / boot_time with sysconf and cpuinfo fallbacks.  Every "
          "function is compared with the statement's arithmetic on the model. "
          "Non-trivial = >=2 sensors with a missing optional file, nested "
          "layout, unreadable reading, thermal zone with >=2 trip points, "
          "battery without the preferred file family, offline CPU, fallback "
          "count path; distinct = label set."),
    strategy=strategy,
    run_case=run_case,
    budgets={"quick": 12000, "thorough": 100000},
    assumptions=[
        "a chip's name file is always present; fan inputs are numeric when readable",
        "battery files contain integers; cpuinfo 'cpu MHz' equals scaling_cur_freq/1000 when both list every CPU",
        "the sandbox imports the cpuinfo variant of cpu_freq; the sysfs variant is a second execution of psutil/_pslinux.py under a patched os.path.exists",
        "sensors only reachable through /sys/devices/platform/coretemp.* are generated for crash-freedom, not asserted",
    ],
    trusted_base=["vlib/simk.py file/glob layer", "hypothesis"],
)

if __name__ == "__main__":
    main(PROP, "props.c19_sensors")
